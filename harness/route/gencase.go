package route

import (
	"fmt"
	"math/rand/v2"
	"net/url"
	"strings"

	"foxverif/gen"

	"github.com/tigerwill90/fox"
)

// GenOpts tunes case generation.
type GenOpts struct {
	Profile    gen.Profile
	Methods    []string // methods to spread routes over (first one gets most)
	Probes     int
	SlashModes bool // random global / per-route trailing-slash options
	Special    bool // random 405 / auto-OPTIONS options
	AllMethods bool // probe with every method of the case plus OPTIONS and an unknown one
}

func noop(fox.Context) {}

// GenCase grows a route set against a scratch router (so that only accepted routes are kept) and derives probes.
func GenCase(r *rand.Rand, o GenOpts) Case {
	var c Case
	if o.SlashModes {
		switch r.IntN(4) {
		case 0:
			c.Global = append(c.Global, "ignore")
		case 1:
			c.Global = append(c.Global, "redirect")
		}
	}
	if o.Special {
		if r.IntN(2) == 0 {
			c.Global = append(c.Global, "405")
		}
		if r.IntN(2) == 0 {
			c.Global = append(c.Global, "options")
		}
	}
	scratch, err := fox.New()
	if err != nil {
		panic(err)
	}
	methods := o.Methods
	if len(methods) == 0 {
		methods = []string{"GET"}
	}
	pick := func() string {
		if r.IntN(2) == 0 {
			return methods[0]
		}
		return methods[r.IntN(len(methods))]
	}
	pats := gen.Set(r, o.Profile, func(p string) bool {
		m := pick()
		if _, err := scratch.Handle(m, p, noop); err != nil {
			return false
		}
		rs := RouteSpec{Method: m, Pattern: p}
		if o.SlashModes {
			switch r.IntN(6) {
			case 0:
				rs.Slash = "ignore"
			case 1:
				rs.Slash = "redirect"
			case 2:
				rs.Slash = "none"
			}
		}
		c.Routes = append(c.Routes, rs)
		// occasionally register the same pattern for a second method too
		if len(methods) > 1 && r.IntN(4) == 0 {
			m2 := methods[r.IntN(len(methods))]
			if m2 != m {
				if _, err := scratch.Handle(m2, p, noop); err == nil {
					c.Routes = append(c.Routes, RouteSpec{Method: m2, Pattern: p, Slash: rs.Slash})
				}
			}
		}
		return true
	})
	_ = pats
	if len(c.Routes) == 0 {
		return c
	}
	for k := 0; k < o.Probes; k++ {
		rs := c.Routes[r.IntN(len(c.Routes))]
		host, path, _ := gen.Instantiate(r, rs.Pattern)
		if r.IntN(2) == 0 {
			host, path = gen.Perturb(r, host, path)
		}
		m := rs.Method
		if o.AllMethods {
			switch r.IntN(5) {
			case 0:
				m = "OPTIONS"
			case 1:
				m = methods[r.IntN(len(methods))]
			case 2:
				m = []string{"TRACE", "CONNECT", "HEAD"}[r.IntN(3)]
			}
		}
		c.Reqs = append(c.Reqs, Req{Method: m, Host: host, Path: path})
	}
	return c
}

// Churn registers routes related to the registered ones (grown from them, plus hostname variants) and deletes them
// again, so that the tree has gone through node splits and delete-merges while the registered set is unchanged.
// It returns the number of routes that were added and removed, and an error text if a delete failed.
func Churn(b *Built, r *rand.Rand, pf gen.Profile, extraMethods ...string) (int, string) {
	type mp struct{ m, p string }
	var tmp []mp
	have := map[string]bool{}
	for k := range b.Spec {
		have[k] = true
	}
	try := func(m, p string) {
		if have[m+" "+p] || len(p) > 140 {
			return
		}
		if _, err := b.F.Handle(m, p, b.Handler()); err == nil {
			have[m+" "+p] = true
			tmp = append(tmp, mp{m, p})
		}
	}
	for _, rs := range b.Case.Routes {
		if _, ok := b.Spec[rs.Method+" "+rs.Pattern]; !ok {
			continue
		}
		for k := 0; k < 2; k++ {
			try(rs.Method, gen.Grow(r, pf, rs.Pattern))
		}
		if i := strings.IndexByte(rs.Pattern, '/'); i > 0 {
			h, rest := rs.Pattern[:i], rs.Pattern[i:]
			try(rs.Method, h+".org"+rest)
			try(rs.Method, h+"-x/zq")
			try(rs.Method, "zq."+h+"/zq")
			if k := strings.LastIndexByte(h, '.'); k > 0 {
				try(rs.Method, h[:k]+"/zq")
				try(rs.Method, h[:k]+".{hz}"+rest)
			}
		} else if r.IntN(3) == 0 {
			try(rs.Method, gen.GrowHost(r, rs.Pattern))
		}
		for _, m := range extraMethods {
			if r.IntN(2) == 0 {
				try(m, rs.Pattern)
			}
		}
	}
	// delete in a random order
	r.Shuffle(len(tmp), func(i, j int) { tmp[i], tmp[j] = tmp[j], tmp[i] })
	for _, t := range tmp {
		if _, err := b.F.Delete(t.m, t.p); err != nil {
			return len(tmp), "a route registered a moment ago cannot be deleted: " + t.m + " " + t.p + ": " + err.Error()
		}
	}
	return len(tmp), ""
}

// Escaped derives from a plain request the wire form a client could send for the "same" resource with needless or
// reserved percent-escapes in one segment, as net/url would parse it: Path holds the decoded form, RawPath the escaped
// one (the router routes on RawPath when it is set). ok is false when the request has no segment to work on.
func Escaped(r *rand.Rand, q Req) (Req, bool) {
	if q.RawPath != "" || !strings.HasPrefix(q.Path, "/") {
		return q, false
	}
	segs := strings.Split(q.Path, "/")
	var idx []int
	for i, sg := range segs {
		if i > 0 && sg != "" && !strings.ContainsAny(sg, "%?#") {
			idx = append(idx, i)
		}
	}
	if len(idx) == 0 {
		return q, false
	}
	i := idx[r.IntN(len(idx))]
	sg := segs[i]
	k := r.IntN(len(sg) + 1)
	var esc string
	switch r.IntN(4) {
	case 0:
		esc = sg[:k] + "%2F" + sg[k:] // an escaped slash inside a segment
	case 1:
		esc = sg[:k] + "%2f" + sg[k:] // lower-case hex
	case 2:
		if k == len(sg) {
			k--
		}
		esc = sg[:k] + fmt.Sprintf("%%%02X", sg[k]) + sg[k+1:] // a needlessly escaped ordinary byte
	default:
		esc = sg[:k] + "%3A" + sg[k:]
	}
	cp := append([]string(nil), segs...)
	cp[i] = esc
	wire := strings.Join(cp, "/")
	u, err := url.ParseRequestURI(wire)
	if err != nil || u.RawPath == "" {
		return q, false
	}
	t := q
	t.Path, t.RawPath = u.Path, u.RawPath
	return t, true
}
