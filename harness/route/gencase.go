package route

import (
	"math/rand/v2"

	"foxverif/gen"

	"github.com/tigerwill90/fox"
)

// GenOpts tunes case generation.
type GenOpts struct {
	Profile    gen.Profile
	Methods    []string // methods to spread routes over (first one gets most)
	Probes     int
	SlashModes bool // random global / per-route trailing-slash options
	Special    bool // random 405 / auto-OPTIONS options
	AllMethods bool // probe with every method of the case plus OPTIONS and an unknown one
}

func noop(fox.Context) {}

// GenCase grows a route set against a scratch router (so that only accepted routes are kept) and derives probes.
func GenCase(r *rand.Rand, o GenOpts) Case {
	var c Case
	if o.SlashModes {
		switch r.IntN(4) {
		case 0:
			c.Global = append(c.Global, "ignore")
		case 1:
			c.Global = append(c.Global, "redirect")
		}
	}
	if o.Special {
		if r.IntN(2) == 0 {
			c.Global = append(c.Global, "405")
		}
		if r.IntN(2) == 0 {
			c.Global = append(c.Global, "options")
		}
	}
	scratch, err := fox.New()
	if err != nil {
		panic(err)
	}
	methods := o.Methods
	if len(methods) == 0 {
		methods = []string{"GET"}
	}
	pick := func() string {
		if r.IntN(2) == 0 {
			return methods[0]
		}
		return methods[r.IntN(len(methods))]
	}
	pats := gen.Set(r, o.Profile, func(p string) bool {
		m := pick()
		if _, err := scratch.Handle(m, p, noop); err != nil {
			return false
		}
		rs := RouteSpec{Method: m, Pattern: p}
		if o.SlashModes {
			switch r.IntN(6) {
			case 0:
				rs.Slash = "ignore"
			case 1:
				rs.Slash = "redirect"
			case 2:
				rs.Slash = "none"
			}
		}
		c.Routes = append(c.Routes, rs)
		// occasionally register the same pattern for a second method too
		if len(methods) > 1 && r.IntN(4) == 0 {
			m2 := methods[r.IntN(len(methods))]
			if m2 != m {
				if _, err := scratch.Handle(m2, p, noop); err == nil {
					c.Routes = append(c.Routes, RouteSpec{Method: m2, Pattern: p, Slash: rs.Slash})
				}
			}
		}
		return true
	})
	_ = pats
	if len(c.Routes) == 0 {
		return c
	}
	for k := 0; k < o.Probes; k++ {
		rs := c.Routes[r.IntN(len(c.Routes))]
		host, path, _ := gen.Instantiate(r, rs.Pattern)
		if r.IntN(2) == 0 {
			host, path = gen.Perturb(r, host, path)
		}
		m := rs.Method
		if o.AllMethods {
			switch r.IntN(5) {
			case 0:
				m = "OPTIONS"
			case 1:
				m = methods[r.IntN(len(methods))]
			case 2:
				m = "TRACE"
			}
		}
		c.Reqs = append(c.Reqs, Req{Method: m, Host: host, Path: path})
	}
	return c
}
