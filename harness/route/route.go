// Package route is the shared engine of the routing monitors (C01, C07, C08, C09, C11, C16): it builds a real
// router from a replayable Case, observes every entry point, and exposes the reference answer next to it.
package route

import (
	"fmt"
	"math/rand/v2"
	"net/http"
	"net/url"
	"sort"
	"strings"

	"foxverif/gen"
	"foxverif/ref"

	"github.com/tigerwill90/fox"
)

// RouteSpec is one route of a case. Slash is "", "ignore", "redirect" or "none" (explicitly disabled).
type RouteSpec struct {
	Method  string `json:"method"`
	Pattern string `json:"pattern"`
	Slash   string `json:"slash,omitempty"`
}

// Req is one probe request.
type Req struct {
	Method  string `json:"method"`
	Host    string `json:"host"`
	Path    string `json:"path"`
	RawPath string `json:"raw_path,omitempty"`
	Query   string `json:"query,omitempty"`
}

func (q Req) String() string {
	s := q.Method + " host=" + fmt.Sprintf("%q", q.Host) + " path=" + fmt.Sprintf("%q", q.Path)
	if q.RawPath != "" {
		s += " raw=" + fmt.Sprintf("%q", q.RawPath)
	}
	if q.Query != "" {
		s += " query=" + fmt.Sprintf("%q", q.Query)
	}
	return s
}

// Case is a replayable unit: router options, routes in insertion order, probes.
type Case struct {
	Global []string    `json:"global,omitempty"` // "ignore", "redirect", "405", "options"
	Routes []RouteSpec `json:"routes"`
	Reqs   []Req       `json:"reqs"`
	// Churn, when non-zero, seeds a round of related temporary routes that are registered after Routes and deleted
	// again before the probes run (see Churn); ChurnMethods are extra methods the temporary routes may use.
	// SlashViaUpdate: routes are first registered without their trailing-slash option and get it through Update
	SlashViaUpdate bool     `json:"slash_via_update,omitempty"`
	Churn          uint64   `json:"churn,omitempty"`
	ChurnMethods   []string `json:"churn_methods,omitempty"`
}

func (c Case) has(opt string) bool {
	for _, g := range c.Global {
		if g == opt {
			return true
		}
	}
	return false
}

// RoutesString renders the routes compactly (used in keys and descriptions).
func (c Case) RoutesString() string {
	var sb strings.Builder
	for i, r := range c.Routes {
		if i > 0 {
			sb.WriteString(" ")
		}
		sb.WriteString(r.Method + ":" + r.Pattern)
		if r.Slash != "" {
			sb.WriteString("[" + r.Slash + "]")
		}
	}
	if len(c.Global) > 0 {
		sb.WriteString(" global=" + strings.Join(c.Global, ","))
	}
	if c.Churn != 0 {
		sb.WriteString(fmt.Sprintf(" churn=%x", c.Churn))
	}
	if c.SlashViaUpdate {
		sb.WriteString(" slash-options-via-update")
	}
	return sb.String()
}

// Seen is what the handlers observed for the last request served.
type Seen struct {
	Kind       string // "route", "noroute", "nomethod", "options", "" (nothing ran)
	Pattern    string // pattern of the route whose handler ran
	Params     []ref.KV
	Scope      fox.HandlerScope
	RouteNil   bool
	CtxPattern string
	Redirect   bool // the redirect-scope middleware ran (internal redirect handler)
	RedirSeen  *Seen
	Calls      int
}

// Built is a router built from a case plus the bookkeeping the monitors need.
type Built struct {
	F        *fox.Router
	Case     Case
	Seen     *Seen
	ByMethod map[string][]*ref.Pattern
	Spec     map[string]RouteSpec // method+" "+pattern
	Methods  []string
	Rejected []RouteSpec
	Churned  int    // temporary routes added and deleted again
	ChurnErr string // a temporary route could not be deleted
}

func snapshot(c fox.Context, kind string) Seen {
	s := Seen{Kind: kind, Scope: c.Scope(), RouteNil: c.Route() == nil, CtxPattern: c.Pattern()}
	for p := range c.Params() {
		s.Params = append(s.Params, ref.KV{K: p.Key, V: p.Value})
	}
	// the by-name accessor agrees with the listing for every name that occurs once, and an absent name gives ""; a
	// disagreement shows as an extra entry, which no reference answer contains
	times := map[string]int{}
	for _, kv := range s.Params {
		times[kv.K]++
	}
	for _, kv := range s.Params {
		if times[kv.K] > 1 {
			continue // which of two entries of one name the accessor gives is not specified
		}
		if got := c.Param(kv.K); got != kv.V {
			s.Params = append(s.Params, ref.KV{K: "!Param(" + kv.K + ")", V: got})
			break
		}
	}
	if got := c.Param("verif-absent-name"); got != "" {
		s.Params = append(s.Params, ref.KV{K: "!Param(verif-absent-name)", V: got})
	}
	return s
}

// Build creates the router. Routes fox rejects are recorded in Rejected and otherwise ignored.
func Build(c Case) (*Built, error) {
	b := &Built{Case: c, Seen: &Seen{}, ByMethod: map[string][]*ref.Pattern{}, Spec: map[string]RouteSpec{}}
	seen := b.Seen
	special := func(kind string, status int) fox.HandlerFunc {
		return func(c fox.Context) {
			calls := seen.Calls
			redir, rs := seen.Redirect, seen.RedirSeen
			*seen = snapshot(c, kind)
			seen.Calls = calls + 1
			seen.Redirect, seen.RedirSeen = redir, rs
			c.Writer().WriteHeader(status)
		}
	}
	opts := []fox.GlobalOption{
		fox.WithNoRouteHandler(special("noroute", 404)),
		fox.WithNoMethodHandler(special("nomethod", 405)),
		fox.WithOptionsHandler(special("options", 204)),
		fox.WithNoMethod(c.has("405")),
		fox.WithAutoOptions(c.has("options")),
		fox.WithMiddlewareFor(fox.RedirectHandler, func(next fox.HandlerFunc) fox.HandlerFunc {
			return func(c fox.Context) {
				s := snapshot(c, "redirect")
				seen.Redirect = true
				seen.RedirSeen = &s
				next(c)
			}
		}),
	}
	if c.has("clonewith-mw") {
		// a middleware on every scope that hands a CloneWith copy of the context to the next handler
		opts = append(opts, fox.WithMiddleware(func(next fox.HandlerFunc) fox.HandlerFunc {
			return func(c fox.Context) {
				cc := c.CloneWith(c.Writer(), c.Request())
				defer cc.Close()
				next(cc)
			}
		}))
	}
	if c.has("ignore") {
		opts = append(opts, fox.WithIgnoreTrailingSlash(true))
	}
	if c.has("redirect") {
		opts = append(opts, fox.WithRedirectTrailingSlash(true))
	}
	f, err := fox.New(opts...)
	if err != nil {
		return nil, err
	}
	b.F = f
	for _, rs := range c.Routes {
		if err := b.Add(rs); err != nil {
			b.Rejected = append(b.Rejected, rs)
		}
	}
	if c.Churn != 0 {
		pf := gen.DefaultProfile
		for _, rs := range c.Routes {
			if !strings.HasPrefix(rs.Pattern, "/") {
				pf = gen.HostProfile
			}
		}
		pf.MaxSeg = 4
		b.Churned, b.ChurnErr = Churn(b, rand.New(rand.NewPCG(c.Churn, 77)), pf, c.ChurnMethods...)
	}
	return b, nil
}

// Handler returns the recording handler used for every route.
func (b *Built) Handler() fox.HandlerFunc {
	seen := b.Seen
	return func(c fox.Context) {
		calls := seen.Calls
		*seen = snapshot(c, "route")
		seen.Pattern = c.Pattern()
		seen.Calls = calls + 1
	}
}

// RouteOpts converts the Slash setting into route options.
func RouteOpts(rs RouteSpec) []fox.RouteOption {
	switch rs.Slash {
	case "ignore":
		return []fox.RouteOption{fox.WithIgnoreTrailingSlash(true)}
	case "redirect":
		return []fox.RouteOption{fox.WithRedirectTrailingSlash(true)}
	case "none":
		return []fox.RouteOption{fox.WithIgnoreTrailingSlash(false), fox.WithRedirectTrailingSlash(false)}
	}
	return nil
}

// Add registers one more route and updates the reference bookkeeping.
func (b *Built) Add(rs RouteSpec) error {
	if b.Case.SlashViaUpdate && rs.Slash != "" {
		if _, err := b.F.Handle(rs.Method, rs.Pattern, b.Handler()); err != nil {
			return err
		}
		if _, err := b.F.Update(rs.Method, rs.Pattern, b.Handler(), RouteOpts(rs)...); err != nil {
			return err
		}
		b.Note(rs)
		return nil
	}
	if _, err := b.F.Handle(rs.Method, rs.Pattern, b.Handler(), RouteOpts(rs)...); err != nil {
		return err
	}
	b.Note(rs)
	return nil
}

// Note records a route registered by other means (e.g. through a transaction).
func (b *Built) Note(rs RouteSpec) {
	if _, ok := b.ByMethod[rs.Method]; !ok {
		b.Methods = append(b.Methods, rs.Method)
		sort.Strings(b.Methods)
	}
	b.ByMethod[rs.Method] = append(b.ByMethod[rs.Method], ref.Tokenize(rs.Pattern))
	b.Spec[rs.Method+" "+rs.Pattern] = rs
}

// Forget removes a route from the reference bookkeeping (after a deletion made by other means).
func (b *Built) Forget(rs RouteSpec) {
	ps := b.ByMethod[rs.Method]
	for i, p := range ps {
		if p.S == rs.Pattern {
			b.ByMethod[rs.Method] = append(append([]*ref.Pattern(nil), ps[:i]...), ps[i+1:]...)
			break
		}
	}
	delete(b.Spec, rs.Method+" "+rs.Pattern)
}

// SlashMode returns the effective trailing-slash mode of a registered route: "ignore", "redirect" or "".
func (b *Built) SlashMode(method, pattern string) string {
	rs := b.Spec[method+" "+pattern]
	switch rs.Slash {
	case "ignore", "redirect":
		return rs.Slash
	case "none":
		return ""
	}
	if b.Case.has("redirect") && b.Case.has("ignore") {
		// the later option wins; cases never set both
		return "redirect"
	}
	if b.Case.has("ignore") {
		return "ignore"
	}
	if b.Case.has("redirect") {
		return "redirect"
	}
	return ""
}

// Ref returns the documented answer for the request.
func (b *Built) Ref(q Req) ref.Outcome {
	return ref.Lookup(b.ByMethod[q.Method], q.Host, q.MatchPath())
}

// MatchPath is the path the router matches on (the escaped form when one is given).
func (q Req) MatchPath() string {
	if q.RawPath != "" {
		return q.RawPath
	}
	return q.Path
}

// HTTP builds the *http.Request for the probe.
func (q Req) HTTP() *http.Request {
	return &http.Request{
		Method:     q.Method,
		URL:        &url.URL{Path: q.Path, RawPath: q.RawPath, RawQuery: q.Query},
		Host:       q.Host,
		Header:     http.Header{},
		Proto:      "HTTP/1.1",
		ProtoMajor: 1,
		ProtoMinor: 1,
		RemoteAddr: "192.0.2.1:1234",
	}
}

// Obs is the answer of one lookup-style entry point.
type Obs struct {
	Pattern string
	Params  []ref.KV
	Tsr     bool
	Route   *fox.Route
}

func (o Obs) String() string {
	if o.Pattern == "" {
		return "<none>"
	}
	return fmt.Sprintf("%s %v tsr=%t", o.Pattern, o.Params, o.Tsr)
}

// Lookuper is satisfied by *fox.Router and *fox.Txn.
type Lookuper interface {
	Lookup(w fox.ResponseWriter, r *http.Request) (*fox.Route, fox.ContextCloser, bool)
	Reverse(method, host, path string) (*fox.Route, bool)
	Iter() fox.Iter
}

// LookupObs runs Lookup and extracts route, params and tsr.
func LookupObs(l Lookuper, q Req) Obs {
	rte, cc, tsr := l.Lookup(nil, q.HTTP())
	if rte == nil {
		return Obs{Tsr: tsr}
	}
	defer cc.Close()
	o := Obs{Pattern: rte.Pattern(), Tsr: tsr, Route: rte}
	for p := range cc.Params() {
		o.Params = append(o.Params, ref.KV{K: p.Key, V: p.Value})
	}
	return o
}

// ReverseObs runs Reverse.
func ReverseObs(l Lookuper, q Req) Obs {
	rte, tsr := l.Reverse(q.Method, q.Host, q.MatchPath())
	if rte == nil {
		return Obs{Tsr: tsr}
	}
	return Obs{Pattern: rte.Pattern(), Tsr: tsr, Route: rte}
}

func seqOf(s ...string) func(yield func(string) bool) {
	return func(yield func(string) bool) {
		for _, e := range s {
			if !yield(e) {
				return
			}
		}
	}
}

// IterReverseObs runs Iter().Reverse for the single request method and returns the routes it yields.
func IterReverseObs(l Lookuper, q Req) []*fox.Route {
	var out []*fox.Route
	for _, r := range l.Iter().Reverse(seqOf(q.Method), q.Host, q.MatchPath()) {
		out = append(out, r)
	}
	return out
}

// Response is a minimal allocation-light http.ResponseWriter.
type Response struct {
	H      http.Header
	Status int
	Body   []byte
}

func (w *Response) Header() http.Header { return w.H }
func (w *Response) WriteHeader(code int) {
	if w.Status == 0 {
		w.Status = code
	}
}
func (w *Response) Write(b []byte) (int, error) {
	if w.Status == 0 {
		w.Status = 200
	}
	w.Body = append(w.Body, b...)
	return len(b), nil
}

// ServeObs is what ServeHTTP did for a request.
type ServeObs struct {
	Seen     Seen
	Status   int
	Location string
	Allow    string
	HasAllow bool
}

// Serve runs ServeHTTP for the probe.
func (b *Built) Serve(q Req) ServeObs {
	*b.Seen = Seen{}
	w := &Response{H: http.Header{}}
	b.F.ServeHTTP(w, q.HTTP())
	o := ServeObs{Seen: *b.Seen, Status: w.Status, Location: w.H.Get("Location")}
	if v, ok := w.H["Allow"]; ok {
		o.HasAllow = true
		o.Allow = strings.Join(v, ", ")
	}
	return o
}

// SameParams compares two parameter lists.
func SameParams(a, b []ref.KV) bool {
	if len(a) != len(b) {
		return false
	}
	for i := range a {
		if a[i] != b[i] {
			return false
		}
	}
	return true
}

// Classify names the kind of disagreement between the reference and fox ("" when they agree).
func Classify(want ref.Outcome, got Obs) string {
	if want.Pattern == got.Pattern && (want.Tsr == got.Tsr || want.Pattern == "") {
		if want.Pattern == "" || SameParams(want.Params, got.Params) {
			return ""
		}
		if want.Tsr {
			return "tsr-params-differ"
		}
		return "params-differ"
	}
	switch {
	case want.Pattern == "" && got.Tsr:
		return "spurious-tsr"
	case want.Pattern == "":
		return "spurious-match"
	case got.Pattern == "" && want.Tsr:
		return "missed-tsr"
	case got.Pattern == "":
		return "missed-match"
	case want.Tsr && got.Tsr:
		return "wrong-tsr-route"
	case !want.Tsr && !got.Tsr:
		return "wrong-route"
	case want.Tsr && !got.Tsr:
		return "direct-instead-of-tsr"
	default:
		return "tsr-instead-of-direct"
	}
}

// SelfCheck verifies, without any reference matcher, that fox's own answer is a valid match of the pattern it
// names: keys are the pattern's wildcard names in order, values have the documented shape, and substituting them
// reproduces the effective host and path.
func SelfCheck(q Req, got Obs) string {
	if got.Pattern == "" {
		return ""
	}
	p := ref.Tokenize(got.Pattern)
	if msg := ref.ValidCapture(p, got.Params); msg != "" {
		return msg
	}
	s, ok := ref.Substitute(p, got.Params)
	if !ok {
		return "values do not fit the pattern"
	}
	path := q.MatchPath()
	if got.Tsr {
		if strings.HasSuffix(path, "/") {
			path = path[:len(path)-1]
		} else {
			path += "/"
		}
	}
	want := path
	if p.HostLen > 0 {
		h, ok := ref.StripHost(q.Host)
		if !ok {
			return ""
		}
		want = h + path
	}
	if s != want {
		return fmt.Sprintf("substitution gives %q, request is %q", s, want)
	}
	return ""
}

// EntryAgreement checks that Reverse and Iter.Reverse of a lookuper give the same answer as its Lookup gave (got):
// same route and trailing-slash flag for Reverse; Iter.Reverse yields the route for a direct match, and for a
// slash-adjusted one only when the route has redirect or ignore enabled (its documented contract). "" = agreement.
func EntryAgreement(l Lookuper, q Req, got Obs) string {
	rev := ReverseObs(l, q)
	if rev.Pattern != got.Pattern || rev.Tsr != got.Tsr || rev.Route != got.Route {
		return fmt.Sprintf("Reverse disagrees with Lookup\nLookup:  %s\nReverse: %s", got, rev)
	}
	its := IterReverseObs(l, q)
	gotDirect := got.Pattern != "" && !got.Tsr
	wantIt := gotDirect || (got.Pattern != "" && got.Tsr && (got.Route.IgnoreTrailingSlashEnabled() || got.Route.RedirectTrailingSlashEnabled()))
	if wantIt != (len(its) == 1) || (len(its) == 1 && its[0] != got.Route) {
		return fmt.Sprintf("Iter.Reverse disagrees with Lookup\nLookup: %s\nIter.Reverse yielded %d route(s)", got, len(its))
	}
	return ""
}
