package kit

import (
	"runtime"
	"strings"
	"time"
)

// AllStacks returns the stack dump of every goroutine.
func AllStacks() string {
	buf := make([]byte, 1<<20)
	for {
		n := runtime.Stack(buf, true)
		if n < len(buf) {
			return string(buf[:n])
		}
		buf = make([]byte, 2*len(buf))
	}
}

// BlockedOnMutex returns the stack of a goroutine that is parked in sync.(*Mutex).Lock (or RWMutex, or a channel
// operation) below a frame containing one of the given substrings; "" when there is none.
func BlockedOnMutex(dump string, under ...string) string {
	for _, g := range strings.Split(dump, "\n\n") {
		blocked := strings.Contains(g, "sync.(*Mutex).Lock") || strings.Contains(g, "sync.(*Mutex).lockSlow") ||
			strings.Contains(g, "sync.(*RWMutex).") || strings.Contains(g, "sync.runtime_SemacquireMutex") ||
			strings.Contains(g, "[chan receive") || strings.Contains(g, "[chan send") || strings.Contains(g, "[select")
		if !blocked {
			continue
		}
		// only frames inside fox count
		if !strings.Contains(g, "github.com/tigerwill90/fox.") {
			continue
		}
		// the goroutine under test is always started by Completes; anything else (e.g. the deliberately parked
		// writer) is not evidence
		if !strings.Contains(g, "kit.Completes") {
			continue
		}
		for _, u := range under {
			if strings.Contains(g, u) {
				return g
			}
		}
	}
	return ""
}

// Completes runs f on a new goroutine and reports whether it returned within d (a generous watchdog, never a verdict
// by itself: the caller must find positive evidence in the stacks before calling a violation).
func Completes(d time.Duration, f func()) bool {
	done := make(chan struct{})
	go func() {
		defer close(done)
		f()
	}()
	select {
	case <-done:
		return true
	case <-time.After(d):
		return false
	}
}

// CompletesCh is Completes that also hands back the channel closed when f returns, for callers that want to know
// whether f finishes later (e.g. once whatever it was waiting for has been released).
func CompletesCh(d time.Duration, f func()) (bool, <-chan struct{}) {
	done := make(chan struct{})
	go func() {
		defer close(done)
		f()
	}()
	select {
	case <-done:
		return true, done
	case <-time.After(d):
		return false, done
	}
}

// BlockedAnywhere is BlockedOnMutex for goroutines that wait in any way (mutex, channel, select, sleep, condition
// variable, WaitGroup) below a frame containing one of the given substrings.
func BlockedAnywhere(dump string, under ...string) string {
	for _, g := range strings.Split(dump, "\n\n") {
		head, _, _ := strings.Cut(g, "\n")
		waiting := false
		for _, st := range []string{"[chan receive", "[chan send", "[select", "[sleep", "[sync.Cond.Wait", "[sync.WaitGroup.Wait", "[semacquire", "[sync.Mutex.Lock", "[sync.RWMutex"} {
			waiting = waiting || strings.Contains(head, st)
		}
		if !waiting || !strings.Contains(g, "kit.Completes") {
			continue
		}
		for _, u := range under {
			if strings.Contains(g, u) {
				return g
			}
		}
	}
	return ""
}
