// Package kit is the shared plumbing of every monitor program: flags, deterministic PRNG streams,
// the result file read by the driver (/verif/check), violation and replay writers, counters.
package kit

import (
	"encoding/json"
	"flag"
	"fmt"
	"hash/fnv"
	"math/rand/v2"
	"os"
	"path/filepath"
	"runtime"
	"runtime/debug"
	"sort"
	"strings"
	"sync"
	"time"
)

const maxViolationKeys = 60
const maxDistinctTracked = 6_000_000

// Violation is one refutation of the property, identified by Key. The driver compares Key with the
// committed KNOWN_FINDINGS.txt; everything else about it is for the reader.
type Violation struct {
	Key    string `json:"key"`
	Desc   string `json:"desc"`
	Replay string `json:"replay"`
	Count  int64  `json:"count"`
}

// Result is what a monitor program hands to the driver.
type Result struct {
	Property     string           `json:"property"`
	Mode         string           `json:"mode"`
	Tier         string           `json:"tier"`
	Seed         int64            `json:"seed"`
	Evaluations  int64            `json:"evaluations"`
	Distinct     int64            `json:"distinct_nontrivial"`
	Rule         string           `json:"rule"`
	Samples      []any            `json:"samples"`
	Counters     map[string]int64 `json:"counters"`
	Extra        map[string]any   `json:"extra,omitempty"`
	Violations   []Violation      `json:"violations"`
	Inconclusive []string         `json:"inconclusive"`
	WallS        float64          `json:"wall_s"`
}

// Run collects what one execution of a monitor program observed. All methods are safe for concurrent use.
type Run struct {
	mu        sync.Mutex
	res       Result
	seen      map[uint64]struct{}
	vio       map[string]*Violation
	out       string
	replayDir string
	start     time.Time
	ReplayIn  string
	Workers   int
	maxSample int
}

var (
	fTier   = flag.String("tier", "quick", "quick|thorough")
	fSeed   = flag.Int64("seed", 1, "VERIF_SEED")
	fMode   = flag.String("mode", "plain", "mode label (plain|race|...)")
	fOut    = flag.String("out", "", "result file")
	fReplay = flag.String("replaydir", "", "directory for replay files")
	fIn     = flag.String("replay", "", "replay this case file instead of generating")
	fWork   = flag.Int("workers", 0, "worker goroutines (0 = GOMAXPROCS)")
)

// Start parses the common flags and returns the Run for property id.
func Start(property, rule string) *Run {
	if !flag.Parsed() {
		flag.Parse()
	}
	r := &Run{seen: map[uint64]struct{}{}, vio: map[string]*Violation{}, out: *fOut, replayDir: *fReplay,
		start: time.Now(), ReplayIn: *fIn, Workers: *fWork, maxSample: 6}
	if r.Workers <= 0 {
		r.Workers = runtime.GOMAXPROCS(0)
	}
	if r.replayDir == "" {
		r.replayDir = os.TempDir()
	}
	r.res = Result{Property: property, Mode: *fMode, Tier: *fTier, Seed: *fSeed, Rule: rule,
		Counters: map[string]int64{}, Extra: map[string]any{}, Samples: []any{}, Violations: []Violation{}, Inconclusive: []string{}}
	return r
}

func (r *Run) Tier() string   { return r.res.Tier }
func (r *Run) Thorough() bool { return r.res.Tier == "thorough" }
func (r *Run) Seed() int64    { return r.res.Seed }
func (r *Run) Mode() string   { return r.res.Mode }

// Pick returns q for the quick tier and t for the thorough tier.
func (r *Run) Pick(q, t int) int {
	if r.Thorough() {
		return t
	}
	return q
}

// Rand returns the deterministic PRNG stream for (seed, property, stream).
func (r *Run) Rand(stream uint64) *rand.Rand {
	h := fnv.New64a()
	h.Write([]byte(r.res.Property))
	return rand.New(rand.NewPCG(uint64(r.res.Seed)*0x9E3779B97F4A7C15+h.Sum64(), stream*0xD1B54A32D192ED03+1))
}

// Eval counts n evaluations (cases executed against the real code).
func (r *Run) Eval(n int64) {
	r.mu.Lock()
	r.res.Evaluations += n
	r.mu.Unlock()
}

// Case counts one evaluation; id identifies the case for the distinct count, which only includes non-trivial cases.
func (r *Run) Case(id string, nontrivial bool) {
	h := fnv.New64a()
	h.Write([]byte(id))
	k := h.Sum64()
	r.mu.Lock()
	r.res.Evaluations++
	if nontrivial && len(r.seen) < maxDistinctTracked {
		// beyond the cap further cases are not counted as distinct (conservative under-count)
		if _, ok := r.seen[k]; !ok {
			r.seen[k] = struct{}{}
			r.res.Distinct++
		}
	}
	r.mu.Unlock()
}

// Count adds n to a named category counter.
func (r *Run) Count(name string, n int64) {
	r.mu.Lock()
	r.res.Counters[name] += n
	r.mu.Unlock()
}

// Counter reads a counter.
func (r *Run) Counter(name string) int64 {
	r.mu.Lock()
	defer r.mu.Unlock()
	return r.res.Counters[name]
}

// Sample records one actual case (only the first few are kept).
func (r *Run) Sample(v any) {
	r.mu.Lock()
	if len(r.res.Samples) < r.maxSample {
		r.res.Samples = append(r.res.Samples, v)
	}
	r.mu.Unlock()
}

// WantSample reports whether more samples are still wanted (avoids building them needlessly).
func (r *Run) WantSample() bool {
	r.mu.Lock()
	defer r.mu.Unlock()
	return len(r.res.Samples) < r.maxSample
}

// SetExtra stores an extra coverage key.
func (r *Run) SetExtra(k string, v any) {
	r.mu.Lock()
	r.res.Extra[k] = v
	r.mu.Unlock()
}

// Inconclusive records a reason why (part of) the run decides nothing.
func (r *Run) Inconclusive(format string, a ...any) {
	r.mu.Lock()
	r.res.Inconclusive = append(r.res.Inconclusive, fmt.Sprintf(format, a...))
	r.mu.Unlock()
}

// Violate records a violation. key identifies the specific failing input or class; replay is any JSON-able
// description of the case sufficient to re-run it (written to the replay directory, first occurrence per key only).
func (r *Run) Violate(key, desc string, replay any) {
	r.mu.Lock()
	defer r.mu.Unlock()
	class := key
	if i := strings.IndexByte(key, '|'); i >= 0 {
		class = key[:i]
	}
	r.res.Counters["violations_class_"+class]++
	if v, ok := r.vio[key]; ok {
		v.Count++
		return
	}
	if len(r.vio) >= maxViolationKeys {
		r.res.Counters["violations_not_listed(overflow)"]++
		return
	}
	h := fnv.New64a()
	h.Write([]byte(key))
	name := fmt.Sprintf("%s-%s-%016x.json", r.res.Property, r.res.Mode, h.Sum64())
	path := filepath.Join(r.replayDir, name)
	b, err := json.MarshalIndent(map[string]any{"property": r.res.Property, "key": key, "desc": desc, "seed": r.res.Seed,
		"tier": r.res.Tier, "mode": r.res.Mode, "case": replay}, "", " ")
	if err == nil {
		_ = os.MkdirAll(r.replayDir, 0o755)
		_ = os.WriteFile(path, b, 0o644)
	}
	if len(desc) > 1500 {
		desc = desc[:1500] + "…"
	}
	r.vio[key] = &Violation{Key: key, Desc: desc, Replay: path, Count: 1}
	// keep a partial result on disk: if the monitor is killed later (hang, fatal error), what it had already
	// witnessed is not lost
	if r.out != "" {
		var vs []Violation
		for _, v := range r.vio {
			vs = append(vs, *v)
		}
		sort.Slice(vs, func(i, j int) bool { return vs[i].Key < vs[j].Key })
		if pb, err := json.Marshal(map[string]any{"property": r.res.Property, "mode": r.res.Mode, "partial": true, "violations": vs}); err == nil {
			tmp := r.out + ".partial.tmp"
			if os.WriteFile(tmp, pb, 0o644) == nil {
				_ = os.Rename(tmp, r.out+".partial")
			}
		}
	}
}

// Violations returns the number of distinct violation keys so far.
func (r *Run) Violations() int {
	r.mu.Lock()
	defer r.mu.Unlock()
	return len(r.vio)
}

// Guard runs f and converts a panic into a violation with the given key prefix.
func (r *Run) Guard(key string, replay any, f func()) (panicked bool) {
	defer func() {
		if p := recover(); p != nil {
			panicked = true
			st := string(debug.Stack())
			r.Violate(key+":panic", fmt.Sprintf("panic: %v\n%s", p, TrimStack(st)), replay)
		}
	}()
	f()
	return false
}

// TrimStack keeps the informative head of a stack dump.
func TrimStack(s string) string {
	lines := strings.Split(s, "\n")
	if len(lines) > 40 {
		lines = lines[:40]
	}
	return strings.Join(lines, "\n")
}

// Finish writes the result file and prints a one-line summary. It never exits non-zero because of violations:
// the driver decides (known findings are its business).
func (r *Run) Finish() {
	r.mu.Lock()
	defer r.mu.Unlock()
	keys := make([]string, 0, len(r.vio))
	for k := range r.vio {
		keys = append(keys, k)
	}
	sort.Strings(keys)
	for _, k := range keys {
		r.res.Violations = append(r.res.Violations, *r.vio[k])
	}
	r.res.WallS = time.Since(r.start).Seconds()
	b, _ := json.MarshalIndent(r.res, "", " ")
	if r.out != "" {
		if err := os.WriteFile(r.out, b, 0o644); err != nil {
			fmt.Fprintln(os.Stderr, "cannot write result:", err)
			os.Exit(3)
		}
	}
	fmt.Printf("%s mode=%s tier=%s seed=%d evaluations=%d distinct_nontrivial=%d violations=%d inconclusive=%d wall=%.1fs\n",
		r.res.Property, r.res.Mode, r.res.Tier, r.res.Seed, r.res.Evaluations, r.res.Distinct, len(r.res.Violations), len(r.res.Inconclusive), r.res.WallS)
	ck := make([]string, 0, len(r.res.Counters))
	for k := range r.res.Counters {
		ck = append(ck, k)
	}
	sort.Strings(ck)
	for _, k := range ck {
		fmt.Printf("  %-40s %d\n", k, r.res.Counters[k])
	}
	for _, v := range r.res.Violations {
		fmt.Printf("  violation key=%s count=%d replay=%s\n    %s\n", v.Key, v.Count, v.Replay, strings.ReplaceAll(v.Desc, "\n", "\n    "))
	}
}

// Parallel runs f(batch) for batch in [0,n) on the run's workers.
func (r *Run) Parallel(n int, f func(batch int)) {
	var wg sync.WaitGroup
	ch := make(chan int)
	w := r.Workers
	if w > n {
		w = n
	}
	for i := 0; i < w; i++ {
		wg.Add(1)
		go func() {
			defer wg.Done()
			for b := range ch {
				f(b)
			}
		}()
	}
	for b := 0; b < n; b++ {
		ch <- b
	}
	close(ch)
	wg.Wait()
}

// LoadReplay decodes the "case" member of a replay file into v.
func LoadReplay(path string, v any) error {
	b, err := os.ReadFile(path)
	if err != nil {
		return err
	}
	var env struct {
		Case json.RawMessage `json:"case"`
	}
	if err := json.Unmarshal(b, &env); err != nil {
		return err
	}
	if len(env.Case) == 0 {
		return json.Unmarshal(b, v)
	}
	return json.Unmarshal(env.Case, v)
}
