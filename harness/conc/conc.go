// Package conc holds concurrent request-versus-transaction monitors shared by C04 and C05.
package conc

import (
	"context"
	"fmt"
	"iter"
	"net/http"
	"net/http/httptest"
	"net/url"
	"runtime"
	"sort"
	"strings"
	"sync"
	"sync/atomic"

	"foxverif/kit"

	"github.com/tigerwill90/fox"
)

// MethodFlip: request routing takes effect atomically also on the method-not-allowed / automatic OPTIONS branches.
// A transaction moves one path between GET and POST; every committed version serves GET with 200 or answers 405 with
// Allow: POST - a GET must never see 404, an empty or a mixed Allow (one request, one version of the tree).
func MethodFlip(run *kit.Run) {
	rounds := run.Pick(8, 100)
	var served, bad atomic.Int64
	for round := 0; round < rounds; round++ {
		f, err := fox.New(fox.WithNoMethod(true), fox.WithAutoOptions(true))
		if err != nil {
			run.Inconclusive("fox.New: %v", err)
			return
		}
		h := func(c fox.Context) { c.Writer().WriteHeader(200) }
		f.MustHandle("GET", "/m/{id}", h)
		f.MustHandle("PUT", "/other", h)
		var stop atomic.Bool
		var wg sync.WaitGroup
		wg.Add(1)
		go func() {
			defer wg.Done()
			from, to := "GET", "POST"
			for i := 0; i < 400 && !stop.Load(); i++ {
				_ = f.Updates(func(txn *fox.Txn) error {
					if _, err := txn.Delete(from, "/m/{id}"); err != nil {
						return err
					}
					_, err := txn.Handle(to, "/m/{id}", h)
					return err
				})
				from, to = to, from
			}
			stop.Store(true)
		}()
		for rd := 0; rd < 6; rd++ {
			wg.Add(1)
			go func(rd int) {
				defer wg.Done()
				for !stop.Load() {
					w := &flipW{h: http.Header{}}
					method := []string{"GET", "POST", "OPTIONS"}[rd%3]
					f.ServeHTTP(w, &http.Request{Method: method, URL: &url.URL{Path: "/m/7"}, Header: http.Header{}, Proto: "HTTP/1.1", ProtoMajor: 1, ProtoMinor: 1})
					served.Add(1)
					allow := w.h.Get("Allow")
					other := map[string]string{"GET": "POST", "POST": "GET"}[method]
					ok := false
					switch {
					case method == "OPTIONS":
						ok = w.status != 404 && (allow == "GET, OPTIONS" || allow == "POST, OPTIONS")
					case w.status == 200 && allow == "":
						ok = true
					case w.status == 405 && (allow == other || allow == other+", OPTIONS"):
						ok = true
					}
					if !ok {
						bad.Add(1)
						stop.Store(true)
						run.Violate(fmt.Sprintf("torn-routing|round=%d", round), fmt.Sprintf("%s /m/7 answered status=%d Allow=%q while a transaction moves the route between GET and POST: every committed version gives 200 or 405 with the other method", method, w.status, allow), map[string]any{"round": round, "method": method, "status": w.status, "allow": allow})
					}
				}
			}(rd)
		}
		wg.Wait()
		run.Case(fmt.Sprintf("method-flip|%d", round), true)
	}
	run.Count("method_flip_requests", served.Load())
	run.Count("method_flip_torn", bad.Load())
}

type flipW struct {
	h      http.Header
	status int
}

func (w *flipW) Header() http.Header         { return w.h }
func (w *flipW) Write(b []byte) (int, error) { return len(b), nil }
func (w *flipW) WriteHeader(c int) {
	if w.status == 0 {
		w.status = c
	}
}

// OptionsStar: a write that has returned is seen by every later request, also on the server-wide "OPTIONS *" branch.
// One writer adds and removes the only route of a method while readers hammer "OPTIONS *" (with delays injected at
// the commit hooks so that readers overlap the publication); after every write RETURNS, the writer itself asks
// "OPTIONS *" and must get exactly the method set of the state it has just committed. Readers only require one of the
// two sets (before/after), never anything else.
func OptionsStar(run *kit.Run) {
	rounds := run.Pick(12, 120)
	var checked, concurrent atomic.Int64
	fox.VerifSetPoint(func(name string) {
		if name == "commit.beforeStore" || name == "commit.afterStore" {
			for i := 0; i < 20; i++ {
				runtime.Gosched()
			}
		}
	})
	defer fox.VerifSetPoint(nil)
	norm := func(h string) string {
		parts := strings.Split(h, ", ")
		sort.Strings(parts)
		return strings.Join(parts, ", ")
	}
	ask := func(f *fox.Router) string {
		w := &flipW{h: http.Header{}}
		f.ServeHTTP(w, &http.Request{Method: "OPTIONS", URL: &url.URL{Path: "*"}, RequestURI: "*", Header: http.Header{}, Proto: "HTTP/1.1", ProtoMajor: 1, ProtoMinor: 1})
		return norm(w.h.Get("Allow"))
	}
	for round := 0; round < rounds; round++ {
		f, err := fox.New(fox.WithAutoOptions(true))
		if err != nil {
			run.Inconclusive("fox.New: %v", err)
			return
		}
		h := func(c fox.Context) { c.Writer().WriteHeader(200) }
		f.MustHandle("GET", "/a", h)
		pattern := []string{"/only", "h.com/only", "{s}.h.com/only/{x}"}[round%3]
		// a custom verb (its root comes and goes) and common verbs (their roots always exist, with or without routes)
		verb := []string{"FOO", "PUT", "DELETE", "POST"}[(round/3)%4]
		set := []string{"GET", "OPTIONS", verb}
		sort.Strings(set)
		without, with := "GET, OPTIONS", strings.Join(set, ", ")
		var stop atomic.Bool
		var wg sync.WaitGroup
		for rd := 0; rd < 6; rd++ {
			wg.Add(1)
			go func() {
				defer wg.Done()
				for !stop.Load() {
					got := ask(f)
					concurrent.Add(1)
					if got != with && got != without {
						stop.Store(true)
						run.Violate(fmt.Sprintf("options-star-mixed|round=%d", round), fmt.Sprintf("OPTIONS * answered Allow=%q while the only route of a verb is added and removed: neither %q nor %q", got, with, without), map[string]any{"round": round, "allow": got})
					}
				}
			}()
		}
		for i := 0; i < 300 && !stop.Load(); i++ {
			var werr error
			want := with
			if i%2 == 0 {
				_, werr = f.Handle(verb, pattern, h)
			} else {
				_, werr = f.Delete(verb, pattern)
				want = without
			}
			if werr != nil {
				stop.Store(true)
				run.Violate(fmt.Sprintf("options-star-write|round=%d", round), fmt.Sprintf("write %d on %s %s failed: %v", i, verb, pattern, werr), map[string]any{"round": round})
				break
			}
			// the write has returned: three sequential requests, all must reflect it
			for k := 0; k < 3; k++ {
				checked.Add(1)
				if got := ask(f); got != want {
					stop.Store(true)
					run.Violate(fmt.Sprintf("options-star-stale|round=%d", round), fmt.Sprintf("after write %d on "+verb+" %s had returned, OPTIONS * answered Allow=%q; the committed state gives %q (request #%d after the write, readers running concurrently)", i, pattern, got, want, k+1), map[string]any{"round": round, "write": i, "allow": got, "want": want})
					break
				}
			}
		}
		stop.Store(true)
		wg.Wait()
		run.Case(fmt.Sprintf("options-star|%d", round), true)
	}
	run.Count("options_star_checked_after_write_returned", checked.Load())
	run.Count("options_star_concurrent_replies", concurrent.Load())
}

// ParamStorm: every request sees its own parameters. Many goroutines, each with values nobody else uses, hammer
// routes whose lookup uses nested pooled contexts (infix catch-alls followed by further parameters, two infix
// catch-alls, hostname plus path parameters, trailing-slash-ignored variants) through ServeHTTP and Lookup while a
// writer keeps committing unrelated routes. The handler compares what its Context exposes with what the request
// encodes. Bounded by iterations, not time.
func ParamStorm(run *kit.Run) {
	paramStorm(run, false)
	// again on a router whose middleware forwards a CloneWith copy of the context (the documented pattern for
	// middleware that wraps the writer): copies taken from slash-adjusted and direct matches live side by side
	paramStorm(run, true)
}

func paramStorm(run *kit.Run, forward bool) {
	iters := run.Pick(4000, 60000)
	if run.Mode() == "race" {
		iters = run.Pick(1500, 15000)
	}
	opts := []fox.GlobalOption{fox.WithIgnoreTrailingSlash(true)}
	if forward {
		opts = append(opts, fox.WithMiddleware(func(next fox.HandlerFunc) fox.HandlerFunc {
			return func(c fox.Context) {
				cc := c.CloneWith(c.Writer(), c.Request())
				defer cc.Close()
				next(cc)
			}
		}))
	}
	// a middleware of the redirect scope that takes its time, as a logging or tracing one does
	opts = append(opts, fox.WithMiddlewareFor(fox.RedirectHandler, func(next fox.HandlerFunc) fox.HandlerFunc {
		return func(c fox.Context) {
			runtime.Gosched()
			next(c)
			runtime.Gosched()
		}
	}))
	f, err := fox.New(opts...)
	if err != nil {
		run.Inconclusive("fox.New: %v", err)
		return
	}
	var bad atomic.Pointer[string]
	var served, keptChecked, redirects atomic.Int64
	// copies of the context that outlive their handler (handed to a background job, as Clone is documented for): a
	// late reader goes through them while the requests go on
	kept := make(chan fox.Context, 512)
	var kwg sync.WaitGroup
	kwg.Add(1)
	go func() {
		defer kwg.Done()
		for cl := range kept {
			runtime.Gosched()
			var sb strings.Builder
			for p := range cl.Params() {
				sb.WriteString(p.Key + "=" + p.Value + ";")
			}
			keptChecked.Add(1)
			if want := cl.Header("X-Want"); sb.String() != want {
				msg := fmt.Sprintf("a Clone of the context of %s%s, read after its handler returned, exposes params %q; the request encodes %q", cl.Host(), cl.Path(), sb.String(), want)
				bad.CompareAndSwap(nil, &msg)
			}
		}
	}()
	check := func(c fox.Context) {
		if n := served.Add(1); n%8 == 0 {
			select {
			case kept <- c.Clone():
			default:
			}
		}
		var sb strings.Builder
		for p := range c.Params() {
			sb.WriteString(p.Key + "=" + p.Value + ";")
		}
		if want := c.Header("X-Want"); sb.String() != want {
			msg := fmt.Sprintf("route %s serving %s%s exposed params %q, the request encodes %q", c.Pattern(), c.Host(), c.Path(), sb.String(), want)
			bad.CompareAndSwap(nil, &msg)
		}
	}
	type shape struct {
		pattern string
		mk      func(a, b, c string) (host, path, want string)
	}
	shapes := []shape{
		{"/files/*{path}/meta/{id}/{rev}", func(a, b, c string) (string, string, string) {
			return "", "/files/" + a + "/" + a + "/meta/" + b + "/" + c, "path=" + a + "/" + a + ";id=" + b + ";rev=" + c + ";"
		}},
		{"/n/*{path}/x/*{id}/y/{rev}", func(a, b, c string) (string, string, string) {
			return "", "/n/" + a + "/x/" + b + "/" + b + "/y/" + c, "path=" + a + ";id=" + b + "/" + b + ";rev=" + c + ";"
		}},
		{"{sub}.h.com/u/{id}/*{rest}", func(a, b, c string) (string, string, string) {
			return a + ".h.com", "/u/" + b + "/" + c + "/" + c, "sub=" + a + ";id=" + b + ";rest=" + c + "/" + c + ";"
		}},
		{"/p/{a}/{b}/{c}", func(a, b, c string) (string, string, string) {
			return "", "/p/" + a + "/" + b + "/" + c, "a=" + a + ";b=" + b + ";c=" + c + ";"
		}},
		{"/t/*{path}/e/{id}/{rev}/", func(a, b, c string) (string, string, string) {
			return "", "/t/" + a + "/e/" + b + "/" + c, "path=" + a + ";id=" + b + ";rev=" + c + ";"
		}},
		{"/m/*{path}/e/{id}", func(a, b, c string) (string, string, string) {
			return "", "/m/" + a + "/" + c + "/e/" + b, "path=" + a + "/" + c + ";id=" + b + ";"
		}},
		{"/m/*{path}/e/{id}/f/{rev}", func(a, b, c string) (string, string, string) {
			return "", "/m/" + a + "/e/" + b + "/f/" + c, "path=" + a + ";id=" + b + ";rev=" + c + ";"
		}},
	}
	for _, s := range shapes {
		f.MustHandle("GET", s.pattern, check)
	}
	f.MustHandle("GET", "/rd/{id}/", check, fox.WithRedirectTrailingSlash(true))
	workers := 4 * runtime.GOMAXPROCS(0)
	var stop atomic.Bool
	var wg, wwg sync.WaitGroup
	wwg.Add(1)
	go func() {
		defer wwg.Done()
		for i := 0; !stop.Load(); i++ {
			p := fmt.Sprintf("/zz/%d/{x}/{y}/{z}/{w}", i%7)
			if i%2 == 0 {
				f.Handle("POST", p, check)
			} else {
				f.Delete("POST", fmt.Sprintf("/zz/%d/{x}/{y}/{z}/{w}", (i-1)%7))
			}
			runtime.Gosched()
		}
	}()
	for g := 0; g < workers; g++ {
		wg.Add(1)
		go func(g int) {
			defer wg.Done()
			a, b, c := fmt.Sprintf("a%d", g), fmt.Sprintf("b%dx", g), fmt.Sprintf("c%dyy", g)
			reqs := make([]*http.Request, len(shapes))
			for i, s := range shapes {
				h, p, want := s.mk(a, b, c)
				reqs[i] = &http.Request{Method: "GET", Host: h, URL: &url.URL{Path: p}, Header: http.Header{"X-Want": {want}}, Proto: "HTTP/1.1", ProtoMajor: 1, ProtoMinor: 1}
			}
			w := &flipW{h: http.Header{}}
			rdReq := &http.Request{Method: "GET", URL: &url.URL{Path: "/rd/" + a, RawQuery: "g=" + b}, Header: http.Header{}, Proto: "HTTP/1.1", ProtoMajor: 1, ProtoMinor: 1}
			for i := 0; i < iters && bad.Load() == nil; i++ {
				rq := reqs[(i+g)%len(reqs)]
				if i%13 == 6 {
					// a trailing-slash redirect: the reply belongs to this request (its own path and query in Location)
					rw := httptest.NewRecorder()
					f.ServeHTTP(rw, rdReq)
					redirects.Add(1)
					if loc := rw.Header().Get("Location"); rw.Code != http.StatusMovedPermanently || !strings.Contains(loc, a+"/") || !strings.HasSuffix(loc, "?g="+b) {
						msg := fmt.Sprintf("GET /rd/%s?g=%s (route /rd/{id}/ redirects) answered status %d Location %q", a, b, rw.Code, loc)
						bad.CompareAndSwap(nil, &msg)
					}
					continue
				}
				if i%5 == 4 {
					if rte, cc, _ := f.Lookup(nil, rq); rte != nil {
						if i%10 == 4 {
							check(cc)
						} else {
							// manual dispatch through the route's own middleware chain (the very first requests of all goroutines
							// reach a route's chain at the same time)
							rte.HandleMiddleware(cc)
						}
						cc.Close()
					}
				} else if i%11 == 5 {
					// the same lookup through a read-only transaction
					_ = f.View(func(t *fox.Txn) error {
						if rte, cc, _ := t.Lookup(nil, rq); rte != nil {
							check(cc)
							cc.Close()
						}
						_, _ = t.Reverse(rq.Method, rq.Host, rq.URL.Path)
						return nil
					})
				} else if i%7 == 3 {
					// "find the first route that matches": the consumer leaves the iterator's loop after the first result
					for _, rte := range f.Iter().Reverse(func(y func(string) bool) { _ = y("POST") && y("GET") }, rq.Host, rq.URL.Path) {
						_ = rte
						break
					}
				} else {
					f.ServeHTTP(w, rq)
				}
				if i%64 == 0 {
					runtime.Gosched()
				}
			}
		}(g)
	}
	wg.Wait()
	stop.Store(true)
	wwg.Wait()
	close(kept)
	kwg.Wait()
	run.Count("param_storm_clones_read_after_their_handler", keptChecked.Load())
	run.Count("param_storm_redirects_checked", redirects.Load())
	if m := bad.Load(); m != nil {
		run.Violate(fmt.Sprintf("param-storm|forward=%t", forward), "a request was served with parameters that are not its own: "+*m, map[string]any{"workers": workers, "seed": run.Seed()})
	}
	run.Case(fmt.Sprintf("param-storm|forwarding-middleware=%t", forward), true)
	run.Count("param_storm_requests_checked", served.Load())
	run.Count("param_storm_goroutines", int64(workers))
}

// AllowFlip: one request is served from one routing state. Transactions flip the methods registered for a path
// between two disjoint sets; the Allow header of a 405 / automatic OPTIONS reply computed while they commit must be
// exactly one of the two sets, never a mixture (several lookups inside one ServeHTTP must use the same tree).
func AllowFlip(run *kit.Run) {
	rounds := run.Pick(10, 100)
	setA := []string{"GET", "POST", "FOO"}
	setB := []string{"PUT", "PATCH", "BAR"}
	want := map[string]bool{"FOO, GET, POST": true, "BAR, PATCH, PUT": true, "FOO, GET, OPTIONS, POST": true, "BAR, OPTIONS, PATCH, PUT": true}
	var replies, mixed atomic.Int64
	for round := 0; round < rounds; round++ {
		f, _ := fox.New(fox.WithNoMethod(true), fox.WithAutoOptions(true))
		h := func(fox.Context) {}
		for _, m := range setA {
			f.MustHandle(m, "/flip/{id}", h)
		}
		var wg sync.WaitGroup
		var stop atomic.Bool
		wg.Add(1)
		go func() {
			defer wg.Done()
			cur, other := setA, setB
			for i := 0; i < 300 && !stop.Load(); i++ {
				_ = f.Updates(func(txn *fox.Txn) error {
					for _, m := range cur {
						if _, err := txn.Delete(m, "/flip/{id}"); err != nil {
							return err
						}
					}
					for _, m := range other {
						if _, err := txn.Handle(m, "/flip/{id}", h); err != nil {
							return err
						}
					}
					return nil
				})
				cur, other = other, cur
			}
			stop.Store(true)
		}()
		for rd := 0; rd < 6; rd++ {
			wg.Add(1)
			go func(rd int) {
				defer wg.Done()
				for !stop.Load() {
					method := "DELETE"
					if rd%2 == 1 {
						method = "OPTIONS"
					}
					w := &allowW{h: http.Header{}}
					f.ServeHTTP(w, &http.Request{Method: method, URL: &url.URL{Path: "/flip/1"}, Header: http.Header{}, Proto: "HTTP/1.1", ProtoMajor: 1, ProtoMinor: 1})
					parts := strings.Split(w.h.Get("Allow"), ", ")
					sort.Strings(parts)
					got := strings.Join(parts, ", ")
					replies.Add(1)
					if !want[got] {
						mixed.Add(1)
						stop.Store(true)
						run.Violate(fmt.Sprintf("torn-allow|round=%d", round), fmt.Sprintf("a %s request answered while transactions flip the method set of its path got Allow=%q: neither the set before nor the set after a transaction", method, w.h.Get("Allow")), map[string]any{"round": round, "allow": w.h.Get("Allow")})
					}
				}
			}(rd)
		}
		wg.Wait()
		run.Case(fmt.Sprintf("allow-flip|%d", round), true)
	}
	run.Count("concurrent_allow_replies", replies.Load())
	run.Count("concurrent_allow_mixed", mixed.Load())
}

type allowW struct{ h http.Header }

func (w *allowW) Header() http.Header         { return w.h }
func (w *allowW) Write(b []byte) (int, error) { return len(b), nil }
func (w *allowW) WriteHeader(int)             {}

// TruncateStorm: emptying or removing the routes of one verb never disturbs requests for the others. A writer keeps
// truncating, deleting and re-registering the routes of some custom verbs - in committed, aborted and failing
// transactions, with the truncation as first or later write - while readers serve requests for verbs that are never
// touched (always 200), trigger the 405 / OPTIONS scans over all verbs, iterate methods on fresh and on held
// snapshots. No request may panic or miss a route that no committed state lacks.
func TruncateStorm(run *kit.Run) {
	rounds := run.Pick(4, 40)
	var served atomic.Int64
	var bad atomic.Pointer[string]
	note := func(format string, a ...any) {
		m := fmt.Sprintf(format, a...)
		bad.CompareAndSwap(nil, &m)
	}
	for round := 0; round < rounds && bad.Load() == nil; round++ {
		f, err := fox.New(fox.WithNoMethod(true), fox.WithAutoOptions(true))
		if err != nil {
			run.Inconclusive("fox.New: %v", err)
			return
		}
		h := func(c fox.Context) { c.Writer().WriteHeader(200) }
		stable := []string{"GET", "KEEP", "ZED"} // never written to after this point
		volatile := []string{"BAR", "MID", "TRACE"}
		for _, m := range []string{"GET", "BAR", "KEEP", "MID", "TRACE", "ZED"} {
			f.MustHandle(m, "/v/{id}", h)
			f.MustHandle(m, "/w", h)
		}
		var stop atomic.Bool
		var wg sync.WaitGroup
		errAbort := fmt.Errorf("abort")
		wg.Add(1)
		go func() {
			defer wg.Done()
			defer stop.Store(true)
			for i := 0; i < 200 && bad.Load() == nil; i++ {
				m := volatile[i%len(volatile)]
				m2 := volatile[(i+1)%len(volatile)]
				fail := i%3 == 1
				_ = f.Updates(func(t *fox.Txn) error {
					switch i % 4 {
					case 0:
						_ = t.Truncate(m)
					case 1:
						_, _ = t.Handle("GET", fmt.Sprintf("/tmp/%d", i), h)
						_ = t.Truncate(m, m2)
					case 2:
						_, _ = t.Delete(m, "/v/{id}")
						_, _ = t.Delete(m, "/w")
					default:
						_ = t.Truncate(m2)
						_, _ = t.Handle(m, "/again", h)
					}
					if fail {
						return errAbort
					}
					return nil
				})
				// put everything back (committed)
				_ = f.Updates(func(t *fox.Txn) error {
					for _, v := range volatile {
						if !t.Has(v, "/v/{id}") {
							_, _ = t.Handle(v, "/v/{id}", h)
						}
						if !t.Has(v, "/w") {
							_, _ = t.Handle(v, "/w", h)
						}
					}
					return nil
				})
			}
		}()
		for rd := 0; rd < 6; rd++ {
			wg.Add(1)
			go func(rd int) {
				defer wg.Done()
				defer func() {
					if p := recover(); p != nil {
						note("a reader panicked while another verb's routes were truncated / removed: %v", p)
						stop.Store(true)
					}
				}()
				held := f.Iter()
				for i := 0; !stop.Load(); i++ {
					m := stable[(i+rd)%len(stable)]
					w := &flipW{h: http.Header{}}
					f.ServeHTTP(w, &http.Request{Method: m, URL: &url.URL{Path: "/v/7"}, Header: http.Header{}, Proto: "HTTP/1.1", ProtoMajor: 1, ProtoMinor: 1})
					served.Add(1)
					if w.status != 200 {
						note("%s /v/7 answered %d while only other verbs were being truncated: its route is in every committed state", m, w.status)
						stop.Store(true)
						return
					}
					// the scans over all verbs
					w2 := &flipW{h: http.Header{}}
					f.ServeHTTP(w2, &http.Request{Method: []string{"NOPE", "OPTIONS"}[i%2], URL: &url.URL{Path: "/w"}, Header: http.Header{}, Proto: "HTTP/1.1", ProtoMajor: 1, ProtoMinor: 1})
					if al := w2.h.Get("Allow"); !strings.Contains(al, "GET") || !strings.Contains(al, "KEEP") || !strings.Contains(al, "ZED") {
						note("the Allow header %q of a %d answer for /w lacks a verb whose route is in every committed state", al, w2.status)
						stop.Store(true)
						return
					}
					n := 0
					for range f.Iter().Methods() {
						n++
					}
					for range held.Methods() {
						n++
					}
					for range held.Routes(func(y func(string) bool) { _ = y("ZED") && y("KEEP") }, "/w") {
						n++
					}
				}
			}(rd)
		}
		wg.Wait()
		run.Case(fmt.Sprintf("truncate-storm|%d", round), true)
	}
	if m := bad.Load(); m != nil {
		run.Violate("truncate-storm", *m, nil)
	}
	run.Count("truncate_storm_requests", served.Load())
}

// FirstUse: whatever a route builds lazily is built once and safely. On many fresh routers, a route with its own
// middleware is used for the very first time by all goroutines at the same instant (released by a barrier): manual
// dispatch after Lookup through Route.HandleMiddleware, Route.Handle, and a request through the router. Every call
// must run exactly the chain the route was created with.
func FirstUse(run *kit.Run) {
	rounds := run.Pick(60, 1500)
	workers := 2 * runtime.GOMAXPROCS(0)
	var bad atomic.Pointer[string]
	var calls atomic.Int64
	type traceKey struct{}
	for round := 0; round < rounds && bad.Load() == nil; round++ {
		f, err := fox.New()
		if err != nil {
			run.Inconclusive("fox.New: %v", err)
			return
		}
		mw := func(id string) fox.MiddlewareFunc {
			return func(next fox.HandlerFunc) fox.HandlerFunc {
				return func(c fox.Context) {
					if t, _ := c.Request().Context().Value(traceKey{}).(*[]string); t != nil {
						*t = append(*t, id)
					}
					next(c)
				}
			}
		}
		h := func(c fox.Context) {
			if t, _ := c.Request().Context().Value(traceKey{}).(*[]string); t != nil {
				*t = append(*t, "handler")
			}
		}
		pattern := []string{"/fu/{id}", "/fu/*{rest}/end", "h.com/fu/{id}"}[round%3]
		host, path := "", "/fu/1"
		switch round % 3 {
		case 1:
			path = "/fu/a/b/end"
		case 2:
			host = "h.com"
		}
		if _, err := f.Handle("GET", pattern, h, fox.WithMiddleware(mw("m1"), mw("m2"))); err != nil {
			run.Inconclusive("Handle: %v", err)
			return
		}
		start := make(chan struct{})
		var wg sync.WaitGroup
		for g := 0; g < workers; g++ {
			wg.Add(1)
			go func(g int) {
				defer wg.Done()
				var trace []string
				req := (&http.Request{Method: "GET", Host: host, URL: &url.URL{Path: path}, Header: http.Header{}, Proto: "HTTP/1.1", ProtoMajor: 1, ProtoMinor: 1}).WithContext(context.WithValue(context.Background(), traceKey{}, &trace))
				<-start
				want := "m1 m2 handler"
				switch g % 3 {
				case 0:
					if rte, cc, _ := f.Lookup(nil, req); rte != nil {
						rte.HandleMiddleware(cc)
						cc.Close()
					}
				case 1:
					f.ServeHTTP(&flipW{h: http.Header{}}, req)
				default:
					if rte, cc, _ := f.Lookup(nil, req); rte != nil {
						rte.Handle(cc)
						cc.Close()
					}
					want = "handler"
				}
				calls.Add(1)
				if got := strings.Join(trace, " "); got != want {
					m := fmt.Sprintf("first use of a fresh route (%s) by %d goroutines at once: one of them ran the chain [%s], the route was created with [%s]", pattern, workers, got, want)
					bad.CompareAndSwap(nil, &m)
				}
			}(g)
		}
		close(start)
		wg.Wait()
		run.Case(fmt.Sprintf("first-use|%d", round), true)
	}
	if m := bad.Load(); m != nil {
		run.Violate("first-use", *m, nil)
	}
	run.Count("first_use_calls", calls.Load())
}

// SharedSeq: the sequences an Iter hands out (All, Prefix, Methods, Routes, Reverse) are plain values; a program may
// keep one and range over it from several goroutines at once, or from inside its own loop body. Every walk yields
// exactly the routes of the snapshot the Iter was created on, whatever the other walks are doing, while a writer keeps
// committing.
func SharedSeq(run *kit.Run) {
	rounds := run.Pick(6, 60)
	f, err := fox.New()
	if err != nil {
		run.Inconclusive("fox.New: %v", err)
		return
	}
	h := func(fox.Context) {}
	n := 0
	for _, m := range []string{"GET", "POST", "FOO"} {
		for i := 0; i < 40; i++ {
			for _, p := range []string{fmt.Sprintf("/s/%c%d", 'a'+i%7, i), fmt.Sprintf("/s/%c%d/{id}", 'a'+i%7, i), fmt.Sprintf("/t/{x}/%d/*{rest}", i)} {
				if _, err := f.Handle(m, p, h); err == nil {
					n++
				}
			}
		}
	}
	var stop atomic.Bool
	var wwg sync.WaitGroup
	wwg.Add(1)
	go func() {
		defer wwg.Done()
		for i := 0; !stop.Load(); i++ {
			if i%2 == 0 {
				_, _ = f.Handle("PUT", fmt.Sprintf("/zz/%d/{x}", i%5), h)
			} else {
				_, _ = f.Delete("PUT", fmt.Sprintf("/zz/%d/{x}", (i-1)%5))
			}
			runtime.Gosched()
		}
	}()
	var bad atomic.Pointer[string]
	var walks atomic.Int64
	workers := 2 * runtime.GOMAXPROCS(0)
	for round := 0; round < rounds && bad.Load() == nil; round++ {
		it := f.Iter()
		want := 0
		sum := func(seq iter.Seq2[string, *fox.Route]) (cnt int, sig uint64) {
			for m, r := range seq {
				cnt++
				for _, b := range []byte(m + " " + r.Pattern()) {
					sig = sig*1099511628211 + uint64(b)
				}
			}
			return
		}
		all, pre := it.All(), it.Prefix(it.Methods(), "/s/")
		want, wantSig := sum(all)
		wantPre, wantPreSig := sum(pre)
		if round == 0 && want < n {
			msg := fmt.Sprintf("Iter.All yields %d routes, %d were registered", want, n)
			bad.CompareAndSwap(nil, &msg)
		}
		// nested: the same sequence ranged from inside its own loop body
		outer, inner := 0, 0
		for range all {
			outer++
			if outer%17 == 0 {
				c, s := sum(all)
				inner++
				if c != want || s != wantSig {
					msg := fmt.Sprintf("a sequence from Iter.All ranged inside its own loop body yields %d routes, a walk on its own %d", c, want)
					bad.CompareAndSwap(nil, &msg)
				}
			}
		}
		if outer != want {
			msg := fmt.Sprintf("a walk over Iter.All that ranged the same sequence %d times from inside its body yields %d routes instead of %d", inner, outer, want)
			bad.CompareAndSwap(nil, &msg)
		}
		var wg sync.WaitGroup
		for g := 0; g < workers; g++ {
			wg.Add(1)
			go func(g int) {
				defer wg.Done()
				defer func() {
					if p := recover(); p != nil {
						msg := fmt.Sprintf("ranging a shared Iter sequence panicked: %v", p)
						bad.CompareAndSwap(nil, &msg)
					}
				}()
				for k := 0; k < 4; k++ {
					seq, wc, ws, what := all, want, wantSig, "All"
					if (g+k)%2 == 1 {
						seq, wc, ws, what = pre, wantPre, wantPreSig, "Prefix"
					}
					c, s := sum(seq)
					walks.Add(1)
					if c != wc || s != ws {
						msg := fmt.Sprintf("one sequence value from Iter.%s ranged by %d goroutines at once: a walk yields %d routes (signature %x), a walk on its own %d (%x)", what, workers, c, s, wc, ws)
						bad.CompareAndSwap(nil, &msg)
					}
				}
			}(g)
		}
		wg.Wait()
	}
	stop.Store(true)
	wwg.Wait()
	if m := bad.Load(); m != nil {
		run.Violate("shared-seq", *m, map[string]any{"workers": workers, "seed": run.Seed()})
	}
	run.Case("shared-iter-sequences", true)
	run.Count("shared_sequence_walks", walks.Load())
}
