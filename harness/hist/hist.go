// Package hist generates and executes mutation histories (Handle/Update/Delete/Truncate, direct or in
// transactions) against a real router in lock-step with the sequential map model ref.Table. It serves the
// monitors of C02, C03, C04 and C07.
package hist

import (
	"errors"
	"fmt"
	"math/rand/v2"
	"sort"
	"strings"

	"foxverif/gen"
	"foxverif/ref"

	"github.com/tigerwill90/fox"
)

// Op is one step of a history.
type Op struct {
	Kind    string   `json:"kind"` // handle handleroute update updateroute delete truncate begin commit abort
	Method  string   `json:"method,omitempty"`
	Pattern string   `json:"pattern,omitempty"`
	Methods []string `json:"methods,omitempty"`
	Bad     string   `json:"bad,omitempty"` // nilhandler badmethod emptymethod badpattern nilroute
}

func (o Op) String() string {
	s := o.Kind
	if o.Kind == "truncate" {
		s += fmt.Sprintf("%v", o.Methods)
	} else if o.Method != "" || o.Pattern != "" {
		s += " " + o.Method + " " + o.Pattern
	}
	if o.Bad != "" {
		s += " !" + o.Bad
	}
	return s
}

// Case is a replayable history over a pattern pool.
type Case struct {
	Pool    []string `json:"pool"`
	Methods []string `json:"methods"`
	Ops     []Op     `json:"ops"`
	// Tight: the router is created with the smallest parameter limits the pool still satisfies (the largest number of
	// wildcards and the longest wildcard name found in the pool); every pool pattern stays valid by the documentation
	Tight bool `json:"tight_limits,omitempty"`
}

// TightLimits returns the largest wildcard count and the longest wildcard name (in bytes) of the patterns.
func TightLimits(pool []string) (params, keyBytes int) {
	for _, p := range pool {
		n := 0
		for i := 0; i < len(p); i++ {
			if p[i] == '{' {
				if j := strings.IndexByte(p[i:], '}'); j > 0 {
					n++
					keyBytes = max(keyBytes, j-1)
				}
			}
		}
		params = max(params, n)
	}
	return max(params, 1), max(keyBytes, 1)
}

func (c Case) String() string {
	var sb strings.Builder
	for i, o := range c.Ops {
		if i > 0 {
			sb.WriteString("; ")
		}
		sb.WriteString(o.String())
	}
	return sb.String()
}

var MethodPool = []string{"GET", "POST", "PATCH", "FOO", "BAR"}

// GenPool grows a pool of patterns sharing prefixes, parameters, catch-alls and hostnames, including variants that
// declare a different wildcard name at the same position (so that conflicts occur).
func GenPool(r *rand.Rand, n int, fanout bool) []string {
	pf := gen.DefaultProfile
	pf.MaxRoutes = n
	pf.FanOut = fanout
	seen := map[string]bool{}
	var pool []string
	add := func(p string) bool {
		if seen[p] {
			return false
		}
		seen[p] = true
		pool = append(pool, p)
		return true
	}
	scratch, _ := fox.New()
	for tries := 0; len(pool) < n && tries < 4; tries++ {
		gen.Set(r, pf, func(p string) bool {
			if _, _, err := parse(scratch, p); err != nil {
				return false
			}
			return add(p)
		})
	}
	// structural families the trie-growing generator rarely produces
	switch r.IntN(5) {
	case 2:
		// one infix catch-all followed by more text in a node key that has children, and the pattern ending exactly on it
		for _, p := range []string{"/v/*{c1}/b/c", "/v/*{c1}/b/d", "/v/*{c1}/b/", "/v/*{c1}/b/c/x", "/v/*{c1}/b/{p3}", "/v/*{c1}/b"} {
			if r.IntN(5) > 0 {
				add(p)
			}
		}
	case 0:
		// a node with several children that have distinct first bytes (registered one by one, in any order, by the
		// histories): children slices grow, are re-sorted and shrink
		b := "/s/"
		letters := []byte("abcdefghijkm")
		r.Shuffle(len(letters), func(i, j int) { letters[i], letters[j] = letters[j], letters[i] })
		for _, c := range letters[:5+r.IntN(6)] {
			p := b + string(c) + gen.Lits[r.IntN(len(gen.Lits))]
			if r.IntN(4) == 0 {
				p += "/{p9}"
			}
			if valid := func() bool { _, _, err := parse(scratch, p); return err == nil }(); valid {
				add(p)
			}
		}
	case 1:
		// two infix catch-alls in one node key, with children below
		for _, p := range []string{"/w/*{c1}/b/*{c3}/c/one", "/w/*{c1}/b/*{c3}/c/two", "/w/*{c1}/b/*{c3}/c/one/more", "/w/*{c1}/b/*{c3}/c/", "/w/*{c1}/b", "/w/*{c1}/b/*{c3}/c/{p5}"} {
			if r.IntN(5) > 0 {
				add(p)
			}
		}
	}
	// patterns that end inside / exactly at the edges the others create: truncations and common prefixes
	base := len(pool)
	valid := func(p string) bool { _, _, err := parse(scratch, p); return err == nil }
	for i := 0; i < base && len(pool) < n+n/2+4; i++ {
		p := pool[r.IntN(base)]
		if strings.ContainsAny(p[max(0, len(p)-3):], "{}*") {
			continue
		}
		for _, cut := range []int{len(p) - 1, len(p) - 2} {
			if cut > strings.IndexByte(p, '/') && valid(p[:cut]) && r.IntN(2) == 0 {
				add(p[:cut])
			}
		}
	}
	for i := 0; i < base && len(pool) < n+n/2+8; i++ {
		a, b := pool[r.IntN(base)], pool[r.IntN(base)]
		l := 0
		for l < len(a) && l < len(b) && a[l] == b[l] {
			l++
		}
		if l > strings.IndexByte(a, '/') && l < len(a) && l < len(b) && !strings.Contains(a[strings.LastIndexByte(a[:l], '/')+1:l], "{") && valid(a[:l]) {
			add(a[:l])
		}
	}
	// conflicting variants: rename one wildcard
	k := len(pool)
	for i := 0; i < k && len(pool) < n+n/3+2; i++ {
		p := pool[r.IntN(k)]
		idx := strings.IndexByte(p, '{')
		if idx < 0 {
			continue
		}
		// pick a random wildcard occurrence
		var occ []int
		for j := 0; j < len(p); j++ {
			if p[j] == '{' {
				occ = append(occ, j)
			}
		}
		j := occ[r.IntN(len(occ))]
		q := p[:j+1] + "z" + p[j+1:]
		if r.IntN(3) == 0 {
			// same position, shorter/longer name sharing a prefix
			end := j + strings.IndexByte(p[j:], '}')
			q = p[:end] + "q" + p[end:]
		}
		add(q)
	}
	return pool
}

func parse(f *fox.Router, p string) (int, int, error) {
	rte, err := f.NewRoute(p, func(fox.Context) {})
	if err != nil {
		return 0, 0, err
	}
	return rte.ParamsLen(), len(rte.Hostname()), nil
}

// GenOps generates n operations. txnMode: 0 never, 1 sometimes, 2 mostly.
func GenOps(r *rand.Rand, c *Case, n int, txnMode int, invalid bool) {
	inTxn := false
	pick := func() (string, string) {
		return c.Methods[r.IntN(len(c.Methods))], c.Pool[r.IntN(len(c.Pool))]
	}
	registered := map[string]bool{} // optimistic guess used only to bias generation
	var regList []string
	for len(c.Ops) < n {
		if txnMode > 0 {
			if !inTxn && r.IntN(10) < txnMode*2 {
				c.Ops = append(c.Ops, Op{Kind: "begin"})
				inTxn = true
				continue
			}
			if inTxn && r.IntN(6) == 0 {
				if r.IntN(3) == 0 {
					c.Ops = append(c.Ops, Op{Kind: "abort"})
				} else {
					c.Ops = append(c.Ops, Op{Kind: "commit"})
				}
				inTxn = false
				continue
			}
		}
		m, p := pick()
		// often stay in the neighbourhood of the previous write: same method, a pool pattern extending (or extended by)
		// the pattern just written, so that consecutive writes of one transaction go through the same nodes
		if len(c.Ops) > 0 && r.IntN(3) == 0 {
			if last := c.Ops[len(c.Ops)-1]; last.Pattern != "" && last.Bad == "" {
				var rel []string
				for _, q := range c.Pool {
					if q != last.Pattern && (strings.HasPrefix(q, last.Pattern) || strings.HasPrefix(last.Pattern, q)) {
						rel = append(rel, q)
					}
				}
				if len(rel) > 0 {
					m, p = last.Method, rel[r.IntN(len(rel))]
				}
			}
		}
		op := Op{Method: m, Pattern: p}
		x := r.IntN(100)
		switch {
		case x < 40:
			op.Kind = "handle"
			if r.IntN(4) == 0 {
				op.Kind = "handleroute"
			}
		case x < 55:
			op.Kind = "update"
			if r.IntN(4) == 0 {
				op.Kind = "updateroute"
			}
			if len(regList) > 0 && r.IntN(3) > 0 {
				mp := strings.SplitN(regList[r.IntN(len(regList))], " ", 2)
				op.Method, op.Pattern = mp[0], mp[1]
			}
		case x < 90:
			op.Kind = "delete"
			if len(regList) > 0 && r.IntN(4) > 0 {
				mp := strings.SplitN(regList[r.IntN(len(regList))], " ", 2)
				op.Method, op.Pattern = mp[0], mp[1]
			}
		case x < 94:
			op = Op{Kind: "truncate"}
			switch r.IntN(3) {
			case 0:
			case 1:
				op.Methods = []string{c.Methods[r.IntN(len(c.Methods))]}
			default:
				op.Methods = []string{c.Methods[r.IntN(len(c.Methods))], c.Methods[r.IntN(len(c.Methods))], "TRACE"}
			}
		default:
			if !invalid {
				continue
			}
			switch r.IntN(6) {
			case 0:
				op.Kind, op.Bad = "handle", "nilhandler"
			case 1:
				op.Kind, op.Bad, op.Method = "handle", "badmethod", []string{"get", "G3T", "GE T", "Get"}[r.IntN(4)]
			case 2:
				op.Kind, op.Bad, op.Method = []string{"handle", "update", "delete", "updateroute"}[r.IntN(4)], "emptymethod", ""
			case 3:
				op.Kind, op.Bad = []string{"handle", "update", "delete"}[r.IntN(3)], "badpattern"
				op.Pattern = []string{"", "a", "/{", "/{}", "/*{}", "/a/{b}c", "/*{a}/*{b}", "a..b/", "-a.com/", "/{a", "/*", "/a/*{b}x", "a.com", "*{h}.com/"}[r.IntN(14)]
			case 4:
				op.Kind, op.Bad = []string{"handleroute", "updateroute"}[r.IntN(2)], "nilroute"
			default:
				op.Kind, op.Bad = "update", "nilhandler"
			}
		}
		if op.Bad == "" && (op.Kind == "handle" || op.Kind == "handleroute") {
			k := op.Method + " " + op.Pattern
			if !registered[k] {
				registered[k] = true
				regList = append(regList, k)
			}
		}
		c.Ops = append(c.Ops, op)
	}
	if inTxn {
		c.Ops = append(c.Ops, Op{Kind: "commit"})
	}
}

// GenStory generates a short directed history: a committed prelude, then a write transaction that first writes a
// pattern other registered patterns extend (preferably one that is not registered yet, i.e. the key of a branching
// node) and then writes below it, then ends (aborted two times out of three), then a few more random operations.
// It complements GenOps, where such a sequence inside one transaction is rare.
func GenStory(r *rand.Rand, c *Case) {
	m := c.Methods[0]
	reg := map[string]bool{}
	nPre := 2 + r.IntN(len(c.Pool))
	for i := 0; i < nPre; i++ {
		p := c.Pool[r.IntN(len(c.Pool))]
		if !reg[p] {
			reg[p] = true
			c.Ops = append(c.Ops, Op{Kind: "handle", Method: m, Pattern: p})
		}
	}
	ext := func(l string) []string {
		var out []string
		for _, q := range c.Pool {
			if q != l && strings.HasPrefix(q, l) {
				out = append(out, q)
			}
		}
		return out
	}
	// candidates: pool patterns extended by >= 2 others
	var cand, best []string
	for _, l := range c.Pool {
		e := ext(l)
		n := 0
		for _, q := range e {
			if reg[q] {
				n++
			}
		}
		if len(e) >= 2 {
			cand = append(cand, l)
			if n >= 2 && !reg[l] {
				best = append(best, l)
			}
		}
	}
	if len(best) > 0 && r.IntN(4) > 0 {
		cand = best
	}
	if len(cand) == 0 {
		GenOps(r, c, 20, 1, false)
		return
	}
	for round := 0; round < 1+r.IntN(2); round++ {
		l := cand[r.IntN(len(cand))]
		e := ext(l)
		c.Ops = append(c.Ops, Op{Kind: "begin"})
		switch {
		case !reg[l] || r.IntN(3) > 0:
			c.Ops = append(c.Ops, Op{Kind: "handle", Method: m, Pattern: l})
		case r.IntN(2) == 0:
			c.Ops = append(c.Ops, Op{Kind: "update", Method: m, Pattern: l})
		default:
			c.Ops = append(c.Ops, Op{Kind: "delete", Method: m, Pattern: l})
		}
		for k := 0; k < 1+r.IntN(3); k++ {
			q := e[r.IntN(len(e))]
			kind := "handle"
			if reg[q] {
				kind = []string{"update", "delete", "update"}[r.IntN(3)]
			}
			c.Ops = append(c.Ops, Op{Kind: kind, Method: m, Pattern: q})
		}
		if r.IntN(3) > 0 {
			c.Ops = append(c.Ops, Op{Kind: "abort"})
		} else {
			c.Ops = append(c.Ops, Op{Kind: "commit"})
			break // reg is no longer accurate
		}
	}
	if r.IntN(2) == 0 {
		GenOps(r, c, len(c.Ops)+r.IntN(8), 1, false)
	}
}

// GenFull generates a history that first registers the whole pool for the first method (so that wide nodes really
// are wide) and then runs n random operations on it.
func GenFull(r *rand.Rand, c *Case, n int, txnMode int) {
	for _, p := range c.Pool {
		c.Ops = append(c.Ops, Op{Kind: "handle", Method: c.Methods[0], Pattern: p})
	}
	GenOps(r, c, len(c.Ops)+n, txnMode, false)
}

// GenPartial registers, one operation at a time and in random order, a random part of the pool for the first method
// (each pattern with probability num/den): nodes are left with some of their possible children, so that later writes
// add siblings before, between and after existing ones.
func GenPartial(r *rand.Rand, c *Case, num, den int) {
	for _, i := range r.Perm(len(c.Pool)) {
		if r.IntN(den) < num {
			c.Ops = append(c.Ops, Op{Kind: "handle", Method: c.Methods[0], Pattern: c.Pool[i]})
		}
	}
}

// GenProgram appends a short directed program for the first method: a pool pattern that others extend and up to
// three of its extensions, written in a random order (below first then the prefix itself, or the reverse), each by a
// random write kind. It complements GenOps, in which two related writes in one program are rare.
func GenProgram(r *rand.Rand, c *Case) {
	m := c.Methods[0]
	var anchors []string
	ext := map[string][]string{}
	for _, l := range c.Pool {
		for _, q := range c.Pool {
			if q != l && strings.HasPrefix(q, l) {
				ext[l] = append(ext[l], q)
			}
		}
		if len(ext[l]) > 0 {
			anchors = append(anchors, l)
		}
	}
	if len(anchors) == 0 {
		GenOps(r, c, len(c.Ops)+3+r.IntN(4), 0, false)
		return
	}
	l := anchors[r.IntN(len(anchors))]
	// prefer anchors whose key holds an infix catch-all (their nodes carry derived data of their own)
	var infix []string
	for _, a := range anchors {
		if k := strings.Index(a, "*{"); k >= 0 && strings.IndexByte(a[k:], '}') < len(a[k:])-1 {
			infix = append(infix, a)
		}
	}
	if len(infix) > 0 && r.IntN(3) > 0 {
		l = infix[r.IntN(len(infix))]
	}
	set := []string{l}
	e := ext[l]
	for _, i := range r.Perm(len(e)) {
		if len(set) < 2+r.IntN(3) {
			set = append(set, e[i])
		}
	}
	r.Shuffle(len(set), func(i, j int) { set[i], set[j] = set[j], set[i] })
	for _, p := range set {
		kind := []string{"handle", "handle", "update", "delete", "handleroute", "updateroute"}[r.IntN(6)]
		c.Ops = append(c.Ops, Op{Kind: kind, Method: m, Pattern: p})
	}
	if r.IntN(2) == 0 {
		c.Ops = append(c.Ops, Op{Kind: "handle", Method: m, Pattern: l})
	}
}

// GenVerbStory generates a history about method roots: every method of the case gets one or two routes (one commit
// each), then a write transaction interleaves writes under one verb with operations that remove or add the root of
// ANOTHER verb (deleting its last route, truncating it, registering a first route for a verb that has none), ends
// (aborted half of the time), and a few random operations follow.
func GenVerbStory(r *rand.Rand, c *Case) {
	count := map[string][]string{}
	for _, m := range c.Methods {
		for k := 0; k < 1+r.IntN(2); k++ {
			p := c.Pool[r.IntN(len(c.Pool))]
			c.Ops = append(c.Ops, Op{Kind: "handle", Method: m, Pattern: p})
			count[m] = append(count[m], p)
		}
	}
	c.Ops = append(c.Ops, Op{Kind: "begin"})
	c.Ops = append(c.Ops, rootSteps(r, c, count)...)
	if r.IntN(2) == 0 {
		c.Ops = append(c.Ops, Op{Kind: "abort"})
	} else {
		c.Ops = append(c.Ops, Op{Kind: "commit"})
	}
	GenOps(r, c, len(c.Ops)+r.IntN(10), 1, false)
}

// GenRootProgram appends the transaction part of a verb story (without begin/end) as a program for monitors that
// enumerate endings themselves; count maps every method to the patterns it is believed to hold.
func GenRootProgram(r *rand.Rand, c *Case) {
	count := map[string][]string{}
	for _, op := range c.Ops {
		if op.Kind == "handle" || op.Kind == "handleroute" {
			count[op.Method] = append(count[op.Method], op.Pattern)
		}
	}
	c.Ops = append(c.Ops, rootSteps(r, c, count)...)
}

// rootSteps: half of the time three directed steps - a write under verb B, the removal of the root of a verb A that
// was registered BEFORE B (all its routes deleted one by one), a write under a verb C registered after A - otherwise
// 3-6 random steps of the same kinds.
func rootSteps(r *rand.Rand, c *Case, count map[string][]string) []Op {
	var out []Op
	if len(c.Methods) >= 3 && r.IntN(2) == 0 {
		ia := r.IntN(len(c.Methods) - 1)
		// prefer a verb whose root really goes away with its last route (the four common verbs keep theirs)
		for try := 0; try < 4; try++ {
			switch c.Methods[ia] {
			case "GET", "POST", "PUT", "DELETE":
				ia = r.IntN(len(c.Methods) - 1)
			}
		}
		ib := ia + 1 + r.IntN(len(c.Methods)-ia-1)
		ic := ia + 1 + r.IntN(len(c.Methods)-ia-1)
		a, b, cc := c.Methods[ia], c.Methods[ib], c.Methods[ic]
		out = append(out, Op{Kind: []string{"handle", "update"}[r.IntN(2)], Method: b, Pattern: pickOr(r, count[b], c.Pool)})
		if r.IntN(4) == 0 {
			out = append(out, Op{Kind: "truncate", Methods: []string{a}})
		} else {
			for _, p := range count[a] {
				out = append(out, Op{Kind: "delete", Method: a, Pattern: p})
			}
		}
		count[a] = nil
		out = append(out, Op{Kind: "handle", Method: cc, Pattern: c.Pool[r.IntN(len(c.Pool))]})
		if r.IntN(2) == 0 {
			out = append(out, Op{Kind: "handle", Method: a, Pattern: c.Pool[r.IntN(len(c.Pool))]})
		}
		return out
	}
	for k := 0; k < 3+r.IntN(4); k++ {
		m := c.Methods[r.IntN(len(c.Methods))]
		switch r.IntN(5) {
		case 0, 1:
			out = append(out, Op{Kind: "handle", Method: m, Pattern: c.Pool[r.IntN(len(c.Pool))]})
		case 2:
			// remove the verb's root: delete all its routes
			for _, p := range count[m] {
				out = append(out, Op{Kind: "delete", Method: m, Pattern: p})
			}
			count[m] = nil
		case 3:
			out = append(out, Op{Kind: "truncate", Methods: []string{m}})
			count[m] = nil
		default:
			if len(count[m]) > 0 {
				out = append(out, Op{Kind: "update", Method: m, Pattern: count[m][0]})
			}
		}
	}
	return out
}

func pickOr(r *rand.Rand, from, pool []string) string {
	if len(from) > 0 {
		return from[r.IntN(len(from))]
	}
	return pool[r.IntN(len(pool))]
}

// ErrClass maps a fox error to the model's vocabulary.
func ErrClass(err error) string {
	switch {
	case err == nil:
		return ""
	case errors.Is(err, fox.ErrRouteExist):
		return "exist"
	case errors.Is(err, fox.ErrRouteNotFound):
		return "notfound"
	case errors.Is(err, fox.ErrRouteConflict):
		return "conflict"
	case errors.Is(err, fox.ErrReadOnlyTxn):
		return "readonly"
	case errors.Is(err, fox.ErrInvalidRoute):
		return "invalid"
	case errors.Is(err, fox.ErrInvalidConfig):
		return "config"
	}
	return "other:" + err.Error()
}

// IDKey is the annotation key under which World stamps every route with its model id.
type IDKey struct{}

// Viewer is the read API shared by *fox.Router and *fox.Txn.
type Viewer interface {
	Has(method, pattern string) bool
	Route(method, pattern string) *fox.Route
	Len() int
	Iter() fox.Iter
}

// World executes a history on a real router and on the model.
type World struct {
	F         *fox.Router
	Committed *ref.Table
	Pending   *ref.Table // model of the open write transaction (nil when none)
	Txn       *fox.Txn
	Routes    map[int]*fox.Route
	NextID    int
	Hit       *int // id of the route whose handler ran last
	Universe  []string
	Methods   []string
	Problems  []string // mismatches found by Apply
	LastWant  string   // outcome the model expected for the last applied write ("" = success)
	toks      map[string]*ref.Pattern
}

func NewWorld(c Case, opts ...fox.GlobalOption) *World {
	if c.Tight {
		mp, mk := TightLimits(c.Pool)
		opts = append(opts[:len(opts):len(opts)], fox.WithMaxRouteParams(uint16(mp)), fox.WithMaxRouteParamKeyBytes(uint16(mk)))
	}
	f, err := fox.New(opts...)
	if err != nil {
		panic(err)
	}
	hit := -1
	return &World{F: f, Committed: ref.NewTable(), Routes: map[int]*fox.Route{}, NextID: 1, Hit: &hit, Universe: c.Pool, Methods: c.Methods}
}

// Handler returns a handler that records the route id.
func (w *World) Handler(id int) fox.HandlerFunc {
	hit := w.Hit
	return func(fox.Context) { *hit = id }
}

func (w *World) table() *ref.Table {
	if w.Pending != nil {
		return w.Pending
	}
	return w.Committed
}

func (w *World) problem(format string, a ...any) {
	w.Problems = append(w.Problems, fmt.Sprintf(format, a...))
}

// Apply executes one operation on fox and on the model and records any disagreement in w.Problems.
func (w *World) Apply(op Op) {
	w.LastWant = ""
	switch op.Kind {
	case "begin":
		if w.Txn == nil {
			w.Txn = w.F.Txn(true)
			w.Pending = w.Committed.Clone()
		}
		return
	case "commit":
		if w.Txn != nil {
			w.Txn.Commit()
			w.Committed, w.Pending, w.Txn = w.Pending, nil, nil
		}
		return
	case "abort":
		if w.Txn != nil {
			w.Txn.Abort()
			w.Pending, w.Txn = nil, nil
		}
		return
	}
	t := w.table()
	id := w.NextID
	w.NextID++
	var h fox.HandlerFunc = w.Handler(id)
	if op.Bad == "nilhandler" {
		h = nil
	}
	// every registration stamps its route with the model id, so that a route object edited in place (same
	// pointer, other content) shows in every observation
	stamp := fox.WithAnnotation(IDKey{}, id)
	var (
		err     error
		rte     *fox.Route
		deleted *fox.Route
	)
	// expected outcome
	want := ""
	var wantConf []string
	var wantDeleted int
	switch {
	case op.Bad != "":
		want = "invalid"
	default:
		switch op.Kind {
		case "handle", "handleroute":
			want, wantConf = t.Insert(op.Method, op.Pattern, id)
		case "update", "updateroute":
			want = t.Update(op.Method, op.Pattern, id)
		case "delete":
			wantDeleted, want = t.Delete(op.Method, op.Pattern)
		case "truncate":
			t.Truncate(op.Methods)
		}
	}
	switch op.Kind {
	case "handle":
		if w.Txn != nil {
			rte, err = w.Txn.Handle(op.Method, op.Pattern, h, stamp)
		} else {
			rte, err = w.F.Handle(op.Method, op.Pattern, h, stamp)
		}
	case "update":
		if w.Txn != nil {
			rte, err = w.Txn.Update(op.Method, op.Pattern, h, stamp)
		} else {
			rte, err = w.F.Update(op.Method, op.Pattern, h, stamp)
		}
	case "handleroute", "updateroute":
		if op.Bad != "nilroute" {
			var nerr error
			rte, nerr = w.F.NewRoute(op.Pattern, h, stamp)
			if nerr != nil {
				w.problem("%s: NewRoute failed for pool pattern: %v", op, nerr)
				return
			}
		}
		switch {
		case op.Kind == "handleroute" && w.Txn != nil:
			err = w.Txn.HandleRoute(op.Method, rte)
		case op.Kind == "handleroute":
			err = w.F.HandleRoute(op.Method, rte)
		case w.Txn != nil:
			err = w.Txn.UpdateRoute(op.Method, rte)
		default:
			err = w.F.UpdateRoute(op.Method, rte)
		}
	case "delete":
		if w.Txn != nil {
			deleted, err = w.Txn.Delete(op.Method, op.Pattern)
		} else {
			deleted, err = w.F.Delete(op.Method, op.Pattern)
		}
	case "truncate":
		if w.Txn != nil {
			err = w.Txn.Truncate(op.Methods...)
		} else {
			err = w.F.Updates(func(txn *fox.Txn) error { return txn.Truncate(op.Methods...) })
		}
	}
	w.LastWant = want
	got := ErrClass(err)
	if got != want {
		w.problem("%s: fox returned %q (%v), the map model says %q", op, got, err, want)
		// keep the model in line with what fox reports it did is NOT done: the observers will show the divergence
	}
	if want == "conflict" && got == "conflict" {
		var ce *fox.RouteConflictError
		if errors.As(err, &ce) {
			m := append([]string(nil), ce.Matched...)
			sort.Strings(m)
			if strings.Join(m, "|") != strings.Join(wantConf, "|") {
				w.problem("%s: conflict names %v, the model expects exactly %v", op, m, wantConf)
			}
			if ce.Method != op.Method || ce.Path != op.Pattern {
				w.problem("%s: conflict error carries method=%q path=%q", op, ce.Method, ce.Path)
			}
		} else {
			w.problem("%s: ErrRouteConflict that is not a *RouteConflictError", op)
		}
	}
	if err == nil {
		switch op.Kind {
		case "handle", "update", "handleroute", "updateroute":
			if rte == nil {
				w.problem("%s: success without a route", op)
			} else {
				w.Routes[id] = rte
				if rte.Pattern() != op.Pattern {
					w.problem("%s: returned route has pattern %q", op, rte.Pattern())
				}
			}
		case "delete":
			if want == "" && (deleted == nil || deleted != w.Routes[wantDeleted]) {
				w.problem("%s: Delete did not return the stored route", op)
			}
		}
	} else if rte != nil && (op.Kind == "handle" || op.Kind == "update") {
		w.problem("%s: error together with a non-nil route", op)
	}
}

// Expect renders what a viewer must show for the model table t.
func (w *World) Expect(t *ref.Table) string {
	var sb strings.Builder
	fmt.Fprintf(&sb, "len=%d\nmethods=%v\n", t.Len(), t.Methods())
	for _, l := range t.Listing() {
		mp := strings.SplitN(l, " ", 2)
		id, _ := t.ID(mp[0], mp[1])
		fmt.Fprintf(&sb, "all %s@%p#%d\n", l, w.Routes[id], id)
	}
	for _, m := range w.allMethods() {
		for _, p := range w.Universe {
			if id, ok := t.ID(m, p); ok {
				fmt.Fprintf(&sb, "has %s %s=%p\n", m, p, w.Routes[id])
			}
		}
	}
	for _, pre := range w.prefixes() {
		var got []string
		for _, l := range t.Listing() {
			mp := strings.SplitN(l, " ", 2)
			if strings.HasPrefix(mp[1], pre) {
				got = append(got, l)
			}
		}
		fmt.Fprintf(&sb, "prefix %q=%v\n", pre, got)
	}
	return sb.String()
}

// RoutingProblem checks that the viewer ROUTES like the model table: for every other pool pattern, the request
// instantiated from it must be resolved by Reverse to the pattern the direct-match reference selects among the
// patterns the model holds for that method (exact reads such as Has/Route/Iter can be right while lookups walk a
// stale or half-updated structure). Requests the reference leaves unspecified are skipped. "" means no problem.
func (w *World) RoutingProblem(v Viewer, t *ref.Table) string {
	rv, ok := v.(interface {
		Reverse(method, host, path string) (*fox.Route, bool)
	})
	if !ok || v == nil {
		return ""
	}
	if w.toks == nil {
		w.toks = map[string]*ref.Pattern{}
	}
	for _, m := range t.Methods() {
		names := t.Patterns(m)
		pats := make([]*ref.Pattern, len(names))
		for i, n := range names {
			tk := w.toks[n]
			if tk == nil {
				tk = ref.Tokenize(n)
				w.toks[n] = tk
			}
			pats[i] = tk
		}
		for i, p := range w.Universe {
			if i%2 == 1 {
				continue
			}
			host, path := instantiate(p)
			want := ref.LookupDirect(pats, host, path)
			full := ref.Lookup(pats, host, path)
			if want.Unspec || full.Unspec {
				continue
			}
			got, tsr := rv.Reverse(m, host, path)
			gp := ""
			if got != nil && !tsr {
				gp = got.Pattern()
			}
			// the one case where a direct path-only match must not be taken (a slash-adjusted hostname route exists) is
			// C08's rule and not judged here (same exemption as C01)
			if gp == "" && want.Pattern != "" && full.Tsr && full.ViaHost {
				continue
			}
			if gp != want.Pattern {
				return fmt.Sprintf("Reverse(%s, %q, %q) resolves to %q, the reference matcher over the model's routes %v selects %q", m, host, path, gp, names, want.Pattern)
			}
		}
	}
	return ""
}

func (w *World) allMethods() []string {
	return append(append([]string(nil), w.Methods...), "TRACE")
}

func (w *World) prefixes() []string {
	seen := map[string]bool{"": true, "/": true}
	out := []string{"", "/"}
	for i, p := range w.Universe {
		if i%3 != 0 {
			continue
		}
		for _, cut := range []int{len(p) / 2, len(p), strings.IndexByte(p, '/') + 1} {
			if cut >= 0 && cut <= len(p) && !seen[p[:cut]] {
				seen[p[:cut]] = true
				out = append(out, p[:cut])
			}
		}
	}
	return out
}

func seq(s ...string) func(yield func(string) bool) {
	return func(yield func(string) bool) {
		for _, e := range s {
			if !yield(e) {
				return
			}
		}
	}
}

// Observe renders what the viewer actually shows, in the same format as Expect.
func (w *World) Observe(v Viewer) string {
	return ObserveIter(v, v.Iter(), w.allMethods(), w.Universe, w.prefixes())
}

// ObserveIter is Observe for an explicit iterator (snapshots keep their Iter).
func ObserveIter(v Viewer, it fox.Iter, methods, universe, prefixes []string) string {
	var sb strings.Builder
	// a consumer may leave any iterator after the first result: whatever the iterator borrowed is given back once,
	// and the full walks below see the same state as if nobody had done so
	if len(universe) > 0 {
		h0, p0 := instantiate(universe[0])
		for range it.All() {
			break
		}
		for range it.Methods() {
			break
		}
		for range it.Prefix(seq(methods...), "") {
			break
		}
		for range it.Routes(seq(methods...), universe[0]) {
			break
		}
		for range it.Reverse(seq(methods...), h0, p0) {
			break
		}
	}
	var ms []string
	for m := range it.Methods() {
		ms = append(ms, m)
	}
	sort.Strings(ms)
	n := -1
	if v != nil {
		n = v.Len()
	}
	type ent struct {
		k string
		r *fox.Route
	}
	var ents []ent
	for m, r := range it.All() {
		ents = append(ents, ent{m + " " + r.Pattern(), r})
	}
	sort.Slice(ents, func(i, j int) bool { return ents[i].k < ents[j].k })
	var all []string
	for _, e := range ents {
		all = append(all, fmt.Sprintf("all %s@%p#%v", e.k, e.r, e.r.Annotation(IDKey{})))
	}
	if n < 0 {
		n = len(all)
	}
	fmt.Fprintf(&sb, "len=%d\nmethods=%v\n", n, ms)
	for _, l := range all {
		sb.WriteString(l + "\n")
	}
	for _, m := range methods {
		for _, p := range universe {
			var viaRoutes *fox.Route
			cnt := 0
			for _, r := range it.Routes(seq(m), p) {
				viaRoutes = r
				cnt++
			}
			if v != nil {
				has, rte := v.Has(m, p), v.Route(m, p)
				if has != (rte != nil) || rte != viaRoutes || cnt > 1 {
					fmt.Fprintf(&sb, "INCONSISTENT %s %s: Has=%t Route=%p Iter.Routes=%p(x%d)\n", m, p, has, rte, viaRoutes, cnt)
				}
			}
			if viaRoutes != nil {
				fmt.Fprintf(&sb, "has %s %s=%p\n", m, p, viaRoutes)
			}
		}
	}
	// Iter.Reverse must agree with the viewer's own Reverse (same state, two read paths)
	if rv, ok := v.(interface {
		Reverse(method, host, path string) (*fox.Route, bool)
	}); ok && v != nil {
		for _, m := range methods {
			for i, p := range universe {
				if i%2 == 1 {
					continue
				}
				host, path := instantiate(p)
				want, tsr := rv.Reverse(m, host, path)
				var got *fox.Route
				n := 0
				for _, r := range it.Reverse(seq(m), host, path) {
					got = r
					n++
				}
				expect := want
				if tsr && want != nil && !want.IgnoreTrailingSlashEnabled() && !want.RedirectTrailingSlashEnabled() {
					expect = nil
				}
				if got != expect || n > 1 {
					fmt.Fprintf(&sb, "INCONSISTENT %s %s%s: Reverse=%p(tsr=%t) Iter.Reverse=%p(x%d)\n", m, host, path, want, tsr, got, n)
				}
			}
		}
	}
	for _, pre := range prefixes {
		var got []string
		for m, r := range it.Prefix(seq(methods...), pre) {
			got = append(got, m+" "+r.Pattern())
		}
		sort.Strings(got)
		fmt.Fprintf(&sb, "prefix %q=%v\n", pre, got)
	}
	return sb.String()
}

// Diff returns the first differing lines of two observations.
func Diff(want, got string) string {
	wl, gl := strings.Split(want, "\n"), strings.Split(got, "\n")
	ws, gs := map[string]bool{}, map[string]bool{}
	for _, l := range wl {
		ws[l] = true
	}
	for _, l := range gl {
		gs[l] = true
	}
	var out []string
	for _, l := range wl {
		if !gs[l] && len(out) < 6 {
			out = append(out, "  model only: "+l)
		}
	}
	for _, l := range gl {
		if !ws[l] && len(out) < 12 {
			out = append(out, "  fox only:   "+l)
		}
	}
	return strings.Join(out, "\n")
}

// instantiate replaces every wildcard of a pattern by a fixed value and splits host and path.
func instantiate(p string) (host, path string) {
	var sb strings.Builder
	for i := 0; i < len(p); {
		switch {
		case p[i] == '{':
			sb.WriteString("v")
			i += strings.IndexByte(p[i:], '}') + 1
		case p[i] == '*' && i+1 < len(p) && p[i+1] == '{':
			sb.WriteString("v/w")
			i += strings.IndexByte(p[i:], '}') + 1
		default:
			sb.WriteByte(p[i])
			i++
		}
	}
	s := sb.String()
	k := strings.IndexByte(s, '/')
	return s[:k], s[k:]
}
