// Package ref holds the deliberately naive executable models the monitors compare fox with.
// Nothing here shares code or data structures with fox: the matcher works on the flat list of
// patterns (no tree), following the documented rules only.
package ref

import (
	"strings"
)

type Kind int

const (
	Lit Kind = iota
	Param
	Catch
)

// Tok is one token of a pattern: a literal byte, a {name} parameter or a *{name} catch-all.
type Tok struct {
	K    Kind
	C    byte
	Name string
	Host bool // token belongs to the hostname part of the pattern
}

// Pattern is a tokenised route pattern.
type Pattern struct {
	S       string
	Toks    []Tok
	HostLen int // length of the hostname part (0 for path-only patterns)
}

// Tokenize splits an accepted pattern into tokens. It assumes the documented grammar.
func Tokenize(p string) *Pattern {
	hostEnd := strings.IndexByte(p, '/')
	if hostEnd < 0 {
		hostEnd = len(p)
	}
	var ts []Tok
	i := 0
	for i < len(p) {
		inHost := i < hostEnd
		switch {
		case p[i] == '{':
			j := strings.IndexByte(p[i:], '}')
			if j < 0 {
				j = len(p) - i - 1
			}
			ts = append(ts, Tok{K: Param, Name: p[i+1 : i+j], Host: inHost})
			i += j + 1
		case p[i] == '*' && i+1 < len(p) && p[i+1] == '{':
			j := strings.IndexByte(p[i:], '}')
			if j < 0 {
				j = len(p) - i - 1
			}
			ts = append(ts, Tok{K: Catch, Name: p[i+2 : i+j], Host: inHost})
			i += j + 1
		default:
			ts = append(ts, Tok{K: Lit, C: p[i], Host: inHost})
			i++
		}
	}
	return &Pattern{S: p, Toks: ts, HostLen: hostEnd}
}

// Wildcards returns the wildcard names of the pattern in order.
func (p *Pattern) Wildcards() []string {
	var out []string
	for _, t := range p.Toks {
		if t.K != Lit {
			out = append(out, t.Name)
		}
	}
	return out
}

// HasInfixCatchAll reports whether a catch-all is followed by further pattern text.
func (p *Pattern) HasInfixCatchAll() bool {
	for i, t := range p.Toks {
		if t.K == Catch && i+1 < len(p.Toks) {
			return true
		}
	}
	return false
}

type KV struct{ K, V string }

// Match is a successful match of the input against one pattern.
type Match struct {
	P      *Pattern
	Params []KV
}

type cand struct {
	p  *Pattern
	ti int
}

type matcher struct {
	in        string
	hs        int  // input bytes before hs are host bytes, the rest path bytes
	mustLitAt int  // input byte that must be consumed by a literal token (-1: none)
	laxInfix  bool // allow an infix catch-all capture that begins with '/'
	Backtrack int  // number of failed branches (non-triviality measure)
	Captures  int
}

func (m *matcher) dfs(cands []cand, j int, acc []KV) *Match {
	if len(cands) == 0 {
		return nil
	}
	if j == len(m.in) {
		for _, c := range cands {
			if c.ti == len(c.p.Toks) {
				return &Match{P: c.p, Params: append([]KV(nil), acc...)}
			}
		}
		return nil
	}
	inHost := j < m.hs
	var static, params, catch []cand
	for _, c := range cands {
		if c.ti >= len(c.p.Toks) {
			continue
		}
		t := c.p.Toks[c.ti]
		if t.Host != inHost {
			continue
		}
		switch t.K {
		case Lit:
			if t.C == m.in[j] {
				static = append(static, cand{c.p, c.ti + 1})
			}
		case Param:
			params = append(params, c)
		case Catch:
			catch = append(catch, c)
		}
	}
	// 1. static text
	if len(static) > 0 {
		if r := m.dfs(static, j+1, acc); r != nil {
			return r
		}
		m.Backtrack++
	}
	// 2. named parameter: exactly one non-empty segment (or host label part)
	if len(params) > 0 {
		end := j
		limit := len(m.in)
		if inHost {
			limit = m.hs
		}
		for end < limit {
			b := m.in[end]
			if b == '/' || (inHost && b == '.') {
				break
			}
			end++
		}
		if end > j && !(m.mustLitAt >= j && m.mustLitAt < end) {
			byName := map[string][]cand{}
			var order []string
			for _, c := range params {
				n := c.p.Toks[c.ti].Name
				if _, ok := byName[n]; !ok {
					order = append(order, n)
				}
				byName[n] = append(byName[n], cand{c.p, c.ti + 1})
			}
			for _, n := range order {
				m.Captures++
				if r := m.dfs(byName[n], end, append(acc, KV{n, m.in[j:end]})); r != nil {
					return r
				}
				m.Backtrack++
			}
		}
	}
	// 3. catch-all: one or more non-empty segments; infix candidates first, every later '/' tried left to right
	if len(catch) > 0 && !inHost {
		name := catch[0].p.Toks[catch[0].ti].Name
		var infix, suffix []cand
		for _, c := range catch {
			if c.ti+1 < len(c.p.Toks) {
				infix = append(infix, cand{c.p, c.ti + 1})
			} else {
				suffix = append(suffix, cand{c.p, c.ti + 1})
			}
		}
		if len(infix) > 0 && (m.in[j] != '/' || m.laxInfix) {
			for k := j + 1; k < len(m.in); k++ {
				if m.in[k] == '/' && m.in[k-1] != '/' {
					if m.mustLitAt >= j && m.mustLitAt < k {
						break
					}
					m.Captures++
					if r := m.dfs(infix, k, append(acc, KV{name, m.in[j:k]})); r != nil {
						return r
					}
					m.Backtrack++
				}
			}
		}
		if len(suffix) > 0 && !(m.mustLitAt >= j) {
			m.Captures++
			return &Match{P: suffix[0].p, Params: append(append([]KV(nil), acc...), KV{name, m.in[j:]})}
		}
	}
	return nil
}

// MatchSet matches host+path against the patterns. mustLitAt is an index into host+path (or -1).
// unspec is true when the documentation does not fix the answer (see DESIGN.md §4.4).
func MatchSet(pats []*Pattern, host, path string, mustLitAt int) (res *Match, unspec bool, backtracks, captures int) {
	in := host + path
	run := func(lax bool) (*Match, *matcher) {
		m := &matcher{in: in, hs: len(host), mustLitAt: mustLitAt, laxInfix: lax}
		cs := make([]cand, len(pats))
		for i, p := range pats {
			cs[i] = cand{p, 0}
		}
		return m.dfs(cs, 0, nil), m
	}
	r1, m1 := run(false)
	r2, _ := run(true)
	if !sameMatch(r1, r2) {
		unspec = true
	}
	return r1, unspec, m1.Backtrack, m1.Captures
}

func sameMatch(a, b *Match) bool {
	if a == nil || b == nil {
		return a == b
	}
	if a.P != b.P || len(a.Params) != len(b.Params) {
		return false
	}
	for i := range a.Params {
		if a.Params[i] != b.Params[i] {
			return false
		}
	}
	return true
}

// Outcome is the documented answer for one (method's route set, host, path).
type Outcome struct {
	Pattern   string // "" when nothing matches, neither directly nor slash-adjusted
	Params    []KV
	Tsr       bool // matched only after adding/removing a trailing slash
	Unspec    bool // the documentation does not fix this answer; only self-consistency monitors apply
	ViaHost   bool // answer comes from the hostname routes
	Backtrack int
	Captures  int
}

// StripHost removes a numeric port and one trailing dot. ok is false when the reference declines to
// say what the effective host is (IPv6 literals, several colons, non numeric ports).
func StripHost(h string) (host string, ok bool) {
	if h == "" {
		return "", true
	}
	if strings.ContainsAny(h, "[]") || strings.Count(h, ":") > 1 {
		return h, false
	}
	if i := strings.IndexByte(h, ':'); i >= 0 {
		port := h[i+1:]
		if port == "" {
			return h, false
		}
		for _, b := range []byte(port) {
			if b < '0' || b > '9' {
				return h, false
			}
		}
		h = h[:i]
	}
	return strings.TrimSuffix(h, "."), true
}

// Split separates hostname patterns from path-only ones.
func Split(patterns []*Pattern) (hostPats, pathPats []*Pattern) {
	for _, p := range patterns {
		if p.HostLen == 0 {
			pathPats = append(pathPats, p)
		} else {
			hostPats = append(hostPats, p)
		}
	}
	return
}

// Lookup implements the documented selection for the routes of one method: hostname routes first
// (direct match, then slash-adjusted), then path-only routes (direct, then slash-adjusted).
func Lookup(patterns []*Pattern, rawHost, path string) Outcome {
	hostPats, pathPats := Split(patterns)
	var out Outcome
	try := func(ps []*Pattern, host string, viaHost bool) bool {
		if len(ps) == 0 {
			return false
		}
		r, un, bt, cp := MatchSet(ps, host, path, -1)
		out.Unspec = out.Unspec || un
		out.Backtrack += bt
		out.Captures += cp
		if r != nil {
			out.Pattern, out.Params, out.Tsr, out.ViaHost = r.P.S, r.Params, false, viaHost
			return true
		}
		if path != "/" { // the empty path of an absolute-form target without a path included: adding the slash gives "/"
			var r2 *Match
			var un2 bool
			if strings.HasSuffix(path, "/") {
				r2, un2, bt, cp = MatchSet(ps, host, path[:len(path)-1], -1)
			} else {
				r2, un2, bt, cp = MatchSet(ps, host, path+"/", len(host)+len(path))
			}
			out.Unspec = out.Unspec || un2
			out.Backtrack += bt
			out.Captures += cp
			if r2 != nil {
				out.Pattern, out.Params, out.Tsr, out.ViaHost = r2.P.S, r2.Params, true, viaHost
				return true
			}
		}
		return false
	}
	if len(hostPats) > 0 {
		h, ok := StripHost(rawHost)
		if !ok {
			out.Unspec = true
		}
		if h != "" {
			if try(hostPats, h, true) {
				return out
			}
		}
	}
	try(pathPats, "", false)
	return out
}

// LookupDirect is the documented selection restricted to direct matches: hostname routes first, then path-only ones.
func LookupDirect(patterns []*Pattern, rawHost, path string) Outcome {
	hostPats, pathPats := Split(patterns)
	var out Outcome
	try := func(ps []*Pattern, host string, viaHost bool) bool {
		if len(ps) == 0 {
			return false
		}
		r, un, bt, cp := MatchSet(ps, host, path, -1)
		out.Unspec = out.Unspec || un
		out.Backtrack += bt
		out.Captures += cp
		if r != nil {
			out.Pattern, out.Params, out.ViaHost = r.P.S, r.Params, viaHost
			return true
		}
		return false
	}
	if len(hostPats) > 0 {
		h, ok := StripHost(rawHost)
		if !ok {
			out.Unspec = true
		}
		if h != "" && try(hostPats, h, true) {
			return out
		}
	}
	try(pathPats, "", false)
	return out
}

// Substitute replaces the wildcards of the pattern by the given values, in order.
func Substitute(p *Pattern, vals []KV) (string, bool) {
	var sb strings.Builder
	k := 0
	for _, t := range p.Toks {
		if t.K == Lit {
			sb.WriteByte(t.C)
			continue
		}
		if k >= len(vals) || vals[k].K != t.Name {
			return "", false
		}
		sb.WriteString(vals[k].V)
		k++
	}
	return sb.String(), k == len(vals)
}

// ValidCapture checks the documented shape of captured values for pattern p: names in pattern order,
// parameters non-empty without separator, catch-alls non-empty.
func ValidCapture(p *Pattern, vals []KV) string {
	k := 0
	for _, t := range p.Toks {
		if t.K == Lit {
			continue
		}
		if k >= len(vals) {
			return "missing value for " + t.Name
		}
		v := vals[k]
		if v.K != t.Name {
			return "key " + v.K + " where " + t.Name + " expected"
		}
		if v.V == "" {
			return "empty value for " + t.Name
		}
		if t.K == Param {
			if strings.Contains(v.V, "/") || (t.Host && strings.Contains(v.V, ".")) {
				return "parameter " + t.Name + " spans a separator: " + v.V
			}
		}
		k++
	}
	if k != len(vals) {
		return "extra values"
	}
	return ""
}
