package ref

import (
	"sort"
	"strings"
)

// Table is the sequential map model of the registered routes: (method, pattern) -> route id.
type Table struct {
	M map[string]map[string]int // method -> pattern -> id of the stored route
}

func NewTable() *Table { return &Table{M: map[string]map[string]int{}} }

// Clone returns an independent copy.
func (t *Table) Clone() *Table {
	c := NewTable()
	for m, ps := range t.M {
		c.M[m] = map[string]int{}
		for p, id := range ps {
			c.M[m][p] = id
		}
	}
	return c
}

// Equal compares two tables.
func (t *Table) Equal(o *Table) bool {
	if t.Len() != o.Len() {
		return false
	}
	for m, ps := range t.M {
		for p, id := range ps {
			if oid, ok := o.M[m][p]; !ok || oid != id {
				return false
			}
		}
	}
	return true
}

func (t *Table) Len() int {
	n := 0
	for _, ps := range t.M {
		n += len(ps)
	}
	return n
}

func (t *Table) Has(method, pattern string) bool {
	_, ok := t.M[method][pattern]
	return ok
}

func (t *Table) ID(method, pattern string) (int, bool) {
	id, ok := t.M[method][pattern]
	return id, ok
}

// Methods returns the methods that have at least one route, sorted.
func (t *Table) Methods() []string {
	var out []string
	for m, ps := range t.M {
		if len(ps) > 0 {
			out = append(out, m)
		}
	}
	sort.Strings(out)
	return out
}

// Patterns returns the sorted patterns of a method.
func (t *Table) Patterns(method string) []string {
	var out []string
	for p := range t.M[method] {
		out = append(out, p)
	}
	sort.Strings(out)
	return out
}

// Listing renders the whole table canonically ("METHOD pattern#id" sorted).
func (t *Table) Listing() []string {
	var out []string
	for m, ps := range t.M {
		for p := range ps {
			out = append(out, m+" "+p)
		}
	}
	sort.Strings(out)
	return out
}

type span struct {
	start, end int // [start,end) including the braces (and the '*')
}

func wildcardSpans(p string) []span {
	var out []span
	for i := 0; i < len(p); {
		if p[i] == '{' || (p[i] == '*' && i+1 < len(p) && p[i+1] == '{') {
			j := strings.IndexByte(p[i:], '}')
			if j < 0 {
				break
			}
			out = append(out, span{i, i + j + 1})
			i += j + 1
			continue
		}
		i++
	}
	return out
}

func spanAt(sp []span, pos int) (span, bool) {
	for _, s := range sp {
		if s.start < pos && pos < s.end {
			return s, true
		}
	}
	return span{}, false
}

// Conflicts returns the registered patterns of the method that declare a different wildcard of the same kind at
// the same position as the candidate pattern (sorted); empty when the candidate conflicts with nothing.
func (t *Table) Conflicts(method, pattern string) []string {
	var out []string
	ps := wildcardSpans(pattern)
	for q := range t.M[method] {
		if q == pattern {
			continue
		}
		l := 0
		for l < len(pattern) && l < len(q) && pattern[l] == q[l] {
			l++
		}
		sp, ok := spanAt(ps, l)
		if !ok {
			continue
		}
		sq, ok := spanAt(wildcardSpans(q), l)
		if ok && sq.start == sp.start {
			out = append(out, q)
		}
	}
	sort.Strings(out)
	return out
}

// Insert applies Handle; returns "", "exist" or "conflict" (with the conflicting patterns).
func (t *Table) Insert(method, pattern string, id int) (string, []string) {
	if t.Has(method, pattern) {
		return "exist", nil
	}
	if c := t.Conflicts(method, pattern); len(c) > 0 {
		return "conflict", c
	}
	if t.M[method] == nil {
		t.M[method] = map[string]int{}
	}
	t.M[method][pattern] = id
	return "", nil
}

// Update applies Update; returns "" or "notfound".
func (t *Table) Update(method, pattern string, id int) string {
	if !t.Has(method, pattern) {
		return "notfound"
	}
	t.M[method][pattern] = id
	return ""
}

// Delete applies Delete; returns the removed id.
func (t *Table) Delete(method, pattern string) (int, string) {
	id, ok := t.M[method][pattern]
	if !ok {
		return 0, "notfound"
	}
	delete(t.M[method], pattern)
	return id, ""
}

// Truncate removes all routes of the methods (all methods when none is given).
func (t *Table) Truncate(methods []string) {
	if len(methods) == 0 {
		t.M = map[string]map[string]int{}
		return
	}
	for _, m := range methods {
		delete(t.M, m)
	}
}
