package ref

import "strings"

// CleanPath is the split-and-stack reference for fox.CleanPath: rooted, no empty, "." or ".." elements
// (".." removes the preceding element, never rising above the root); the trailing slash is kept exactly
// when the input ended with a slash or a "." element and the result is not the root.
func CleanPath(p string) string {
	if p == "" {
		return "/"
	}
	elems := strings.Split(p, "/")
	var stack []string
	for _, e := range elems {
		switch e {
		case "", ".":
		case "..":
			if len(stack) > 0 {
				stack = stack[:len(stack)-1]
			}
		default:
			stack = append(stack, e)
		}
	}
	out := "/" + strings.Join(stack, "/")
	last := elems[len(elems)-1]
	if (last == "" || last == ".") && len(p) > 1 && out != "/" {
		out += "/"
	}
	return out
}
