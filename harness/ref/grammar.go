package ref

import "strings"

// Verdict of the grammar oracle.
type Verdict int

const (
	Invalid Verdict = iota
	Valid
	Unspecified // the documentation does not settle it (only crash-freedom and routability are checked)
)

func (v Verdict) String() string { return [...]string{"invalid", "valid", "unspecified"}[v] }

// Grammar recognises the documented pattern grammar, written from the README and not from fox's parser:
// a leading slash, or an LDH hostname followed by a slash; wildcards {name} / *{name} with a non-empty name, at most
// one per path segment or host label and only at its end; no catch-all in hostnames; no two catch-alls separated
// only by a slash; limits on the number of wildcards and on the name length.
func Grammar(p string, maxParams, maxKeyBytes int) (Verdict, string) {
	slash := strings.IndexByte(p, '/')
	if slash < 0 {
		return Invalid, "no slash"
	}
	unspec := ""
	params := 0
	host, path := p[:slash], p[slash:]
	if host != "" {
		if len(host) > 255 {
			if strings.ContainsAny(host, "{}") {
				unspec = "length limit with wildcards"
			} else {
				return Invalid, "hostname longer than 255"
			}
		}
		allNumeric := true
		for _, label := range strings.Split(host, ".") {
			if label == "" {
				return Invalid, "empty hostname label"
			}
			static := label
			if i := strings.IndexByte(label, '{'); i >= 0 {
				static = label[:i]
				name := label[i:]
				if !strings.HasSuffix(name, "}") {
					return Invalid, "wildcard not at the end of the label"
				}
				name = name[1 : len(name)-1]
				if name == "" || strings.ContainsAny(name, "{}*/.") {
					return Invalid, "bad parameter name in hostname"
				}
				if len(name) > maxKeyBytes {
					return Invalid, "parameter name too long"
				}
				params++
				allNumeric = false
				if strings.HasSuffix(static, "-") {
					unspec = "hyphen right before a hostname parameter"
				}
			} else if strings.HasSuffix(static, "-") {
				return Invalid, "label ends with a hyphen"
			}
			if strings.ContainsAny(static, "*}") {
				return Invalid, "catch-all or stray brace in hostname"
			}
			if strings.HasPrefix(static, "-") {
				return Invalid, "label starts with a hyphen"
			}
			if len(static) > 63 {
				return Invalid, "label longer than 63"
			}
			for i := 0; i < len(static); i++ {
				c := static[i]
				switch {
				case c >= 'a' && c <= 'z', c >= 'A' && c <= 'Z', c == '-':
					allNumeric = false
				case c >= '0' && c <= '9':
				case c == '_':
					allNumeric = false
					unspec = "underscore in hostname"
				default:
					return Invalid, "character outside letters, digits, hyphen in hostname"
				}
			}
		}
		if allNumeric {
			unspec = "all-numeric hostname"
		}
	}
	prevCatchAll := false
	for i, seg := range strings.Split(path[1:], "/") {
		_ = i
		static := seg
		isCatch := false
		if k := strings.IndexAny(seg, "{*"); k >= 0 {
			static = seg[:k]
			w := seg[k:]
			if w[0] == '*' {
				isCatch = true
				w = w[1:]
			}
			if len(w) < 2 || w[0] != '{' || w[len(w)-1] != '}' {
				return Invalid, "malformed wildcard or wildcard not at the end of the segment"
			}
			name := w[1 : len(w)-1]
			if name == "" || strings.ContainsAny(name, "{}*/") {
				return Invalid, "bad wildcard name"
			}
			if len(name) > maxKeyBytes {
				return Invalid, "wildcard name too long"
			}
			params++
			if isCatch && prevCatchAll && static == "" {
				return Invalid, "two catch-alls separated only by a slash"
			}
		}
		if strings.Contains(static, "}") {
			unspec = "stray closing brace in static text"
		}
		prevCatchAll = isCatch
	}
	if params > maxParams {
		return Invalid, "too many wildcards"
	}
	if unspec != "" {
		return Unspecified, unspec
	}
	return Valid, ""
}
