// Package gen holds the deterministic generators: trie-growing route sets and hostile requests.
package gen

import (
	"math/rand/v2"
	"strings"
)

var Lits = []string{"a", "b", "ab", "foo", "bar", "foobar", "x", "q", "fo", "ba", "a", "b", "foo", "x",
	// static text whose first byte sorts before '*' or after '{' (next to wildcard siblings the order of the edges matters)
	"~a", "$b", "!c", "|d", "éf", "_g", "(h"}
var MidLits = []string{"a", "b", "ab", "id:", "foo", "x"}
var Hosts = []string{"a.com", "b.com", "{h0}.com", "a.{h1}", "x.a.com", "{h0}.a.com", "a.co", "a{h0}.com", "{h0}.{h1}", "a.com.org", "ab.com", "x.{h1}.com", "{h0}.co", "{h0}.com.org", "a{h0}.co", "x.{h1}.co", "a.b.c", "a.b.d.e", "a.b.d.{h3}", "a.{h1}.c", "a.b", "a.{h1}.d.e", "{h0}.b.com", "{h0}.{h1}.com", "api-eu.com", "api.com", "api", "api-int", "a.com-m.org", "{h0}.co-op", "{h0}", "{h0}", "a.{h1}", "a.b.{h2}"}
var Methods = []string{"GET", "POST", "PATCH", "FOO"}

// Profile tunes the generator.
type Profile struct {
	Hosts     int // percent of patterns carrying a hostname
	Wild      int // percent of segments that are wildcards
	MaxSeg    int
	MaxRoutes int
	FanOut    bool // add a node with more than 50 children
}

var DefaultProfile = Profile{Hosts: 25, Wild: 45, MaxSeg: 5, MaxRoutes: 12}
var HostProfile = Profile{Hosts: 70, Wild: 40, MaxSeg: 3, MaxRoutes: 10}
var PathProfile = Profile{Hosts: 0, Wild: 50, MaxSeg: 5, MaxRoutes: 12}

// segment returns a random segment for depth d (wildcard names are positional so that two patterns never
// declare different names at one position). prevCatch tells whether the previous segment was a catch-all.
func segment(r *rand.Rand, pf Profile, d int, prevCatch bool) (seg string, isCatch bool) {
	if r.IntN(100) >= pf.Wild {
		return Lits[r.IntN(len(Lits))], false
	}
	n := string(rune('0' + d%10))
	switch k := r.IntN(10); {
	case k < 4:
		return "{p" + n + "}", false
	case k < 6:
		return MidLits[r.IntN(len(MidLits))] + "{p" + n + "}", false
	case k < 9:
		if prevCatch {
			return "{p" + n + "}", false
		}
		return "*{c" + n + "}", true
	default:
		if prevCatch {
			return Lits[r.IntN(len(Lits))], false
		}
		return MidLits[r.IntN(len(MidLits))] + "*{c" + n + "}", true
	}
}

func segCount(p string) int { return strings.Count(p[strings.IndexByte(p, '/'):], "/") }

// Fresh builds a pattern from scratch.
func Fresh(r *rand.Rand, pf Profile) string {
	var sb strings.Builder
	if r.IntN(100) < pf.Hosts {
		sb.WriteString(Hosts[r.IntN(len(Hosts))])
	}
	return extend(r, pf, sb.String(), 0, false)
}

func extend(r *rand.Rand, pf Profile, prefix string, depth int, prevCatch bool) string {
	var sb strings.Builder
	sb.WriteString(prefix)
	n := 1 + r.IntN(pf.MaxSeg)
	for i := 0; i < n; i++ {
		sb.WriteByte('/')
		s, c := segment(r, pf, depth+i, prevCatch)
		sb.WriteString(s)
		prevCatch = c
	}
	if r.IntN(4) == 0 {
		sb.WriteByte('/')
	}
	return sb.String()
}

// Grow derives a new pattern from an existing one: cut at a boundary and continue with fresh tokens.
func Grow(r *rand.Rand, pf Profile, base string) string {
	hostEnd := strings.IndexByte(base, '/')
	// cut points: after each '/', or mid-literal, never inside a wildcard
	var cuts []int
	inW := false
	for i := hostEnd; i < len(base); i++ {
		switch base[i] {
		case '{':
			inW = true
		case '}':
			inW = false
			cuts = append(cuts, i+1)
		case '/':
			cuts = append(cuts, i+1, i+1, i+1)
		default:
			if !inW && base[i] != '*' && i+1 < len(base) && base[i+1] != '{' {
				cuts = append(cuts, i+1)
			}
		}
	}
	if len(cuts) == 0 {
		return Fresh(r, pf)
	}
	cut := cuts[r.IntN(len(cuts))]
	prefix := base[:cut]
	depth := strings.Count(prefix[hostEnd:], "/") - 1
	prevCatch := false
	if k := strings.LastIndexByte(strings.TrimSuffix(prefix, "/"), '/'); k >= 0 {
		prevCatch = strings.Contains(strings.TrimSuffix(prefix, "/")[k:], "*")
	}
	var sb strings.Builder
	sb.WriteString(prefix)
	if strings.HasSuffix(prefix, "/") {
		// continue with a fresh segment at this depth
		s, c := segment(r, pf, depth, prevCatch)
		if r.IntN(6) == 0 {
			// end right here (pattern with trailing slash)
			return prefix
		}
		sb.WriteString(s)
		prevCatch = c
	} else if strings.HasSuffix(prefix, "}") {
		if r.IntN(3) == 0 {
			return prefix
		}
	} else {
		// mid literal: glue a literal continuation, possibly ending in a wildcard
		switch r.IntN(4) {
		case 0:
			sb.WriteString(Lits[r.IntN(len(Lits))])
		case 1:
			sb.WriteString("{p" + string(rune('0'+depth%10)) + "}")
		case 2:
			if !prevCatch {
				sb.WriteString("*{c" + string(rune('0'+depth%10)) + "}")
				prevCatch = true
			}
		}
	}
	if r.IntN(3) > 0 {
		return extend(r, pf, sb.String(), depth+1, prevCatch)
	}
	if r.IntN(4) == 0 {
		sb.WriteByte('/')
	}
	return sb.String()
}

// GrowHost derives a pattern that shares the path but changes / adds a hostname.
func GrowHost(r *rand.Rand, base string) string {
	hostEnd := strings.IndexByte(base, '/')
	if hostEnd > 0 && r.IntN(3) == 0 {
		// a hostname that continues the base's own hostname right after its last byte: with a hyphen (sorts before
		// '.' and '/'), a letter, a digit or a further label - the registered host becomes an inner node with a path
		// sub-tree of its own
		h := base[:hostEnd]
		if !strings.HasSuffix(h, "}") {
			return h + []string{"-x", "-mirror.org", "x", "0", ".a", ".{h9}", "-{h9}"}[r.IntN(7)] + base[hostEnd:]
		}
		return h + []string{".a", ".org", ".{h9}"}[r.IntN(3)] + base[hostEnd:]
	}
	return Hosts[r.IntN(len(Hosts))] + base[hostEnd:]
}

// Set grows a route set for one method. try registers the candidate in the real router and reports acceptance.
func Set(r *rand.Rand, pf Profile, try func(pattern string) bool) []string {
	var acc []string
	n := 1 + r.IntN(pf.MaxRoutes)
	for attempts := 0; len(acc) < n && attempts < 4*n+8; attempts++ {
		var p string
		switch {
		case len(acc) == 0 || r.IntN(5) == 0:
			p = Fresh(r, pf)
		case pf.Hosts > 0 && r.IntN(6) == 0:
			p = GrowHost(r, acc[r.IntN(len(acc))])
		default:
			p = Grow(r, pf, acc[r.IntN(len(acc))])
		}
		if len(p) > 120 || segCount(p) > 9 {
			continue
		}
		if try(p) {
			acc = append(acc, p)
		}
	}
	if pf.Wild > 0 && r.IntN(10) == 0 {
		// consecutive levels that each have a static, a parameter and a catch-all child: a lookup going down the static
		// edges sets two alternatives aside per level (more than the tree is deep)
		base := "/t"
		if r.IntN(2) == 0 {
			base = ""
		}
		p := base
		levels := 2 + r.IntN(4)
		// two flavours: the static prefixes are routes themselves (a node per segment and one per slash), or only the
		// wildcard alternatives and the deepest routes are registered (one node per level: the recorded depth is small)
		sparse := r.IntN(2) == 0
		for d := 0; d < levels; d++ {
			n := string(rune('0' + (d+strings.Count(base, "/"))%10))
			alts := []string{p + "/{p" + n + "}", p + "/*{c" + n + "}"}
			if sparse && d < levels-1 {
				alts = []string{p + "/{p" + n + "}/x", p + "/*{c" + n + "}/y"}
			} else if d == levels-1 {
				// the deepest level: both wildcards, only the catch-all, or the catch-all one static segment further down
				switch r.IntN(3) {
				case 1:
					alts = alts[1:]
				case 2:
					alts = []string{p + "/q/*{c" + string(rune('0'+(d+1+strings.Count(base, "/"))%10)) + "}"}
				}
			}
			for _, q := range alts {
				if try(q) {
					acc = append(acc, q)
				}
			}
			p += "/s"
			if !sparse || d == levels-1 {
				if try(p) {
					acc = append(acc, p)
				}
			}
		}
	}
	if pf.Wild > 0 && r.IntN(12) == 0 {
		// a node key that holds two infix catch-alls and has children, then routes strictly below one of the children
		// (registered last: the node is copied as an ancestor, not rebuilt)
		base := []string{"/w", "", "a.com/w"}[r.IntN(3)]
		k := strings.Count(base[strings.IndexByte(base, '/')+1:], "/") + 1
		if base == "" {
			k = 0
		}
		n1, n2 := string(rune('0'+k%10)), string(rune('0'+(k+2)%10))
		stem := base + "/*{c" + n1 + "}/b/*{c" + n2 + "}/c/"
		for _, q := range []string{stem + "one", stem + "two", stem + "one/more", stem + "two/{p" + string(rune('0'+(k+5)%10)) + "}", stem + "one/more/x"} {
			if try(q) {
				acc = append(acc, q)
			}
		}
	}
	if pf.FanOut {
		// more than 50 children under one node: distinct first bytes
		base := "/f/"
		if len(acc) > 0 && r.IntN(2) == 0 {
			b := acc[r.IntN(len(acc))]
			if k := strings.IndexByte(b, '{'); k < 0 {
				if s := strings.IndexByte(b, '*'); s < 0 {
					base = strings.TrimSuffix(b, "/") + "/"
				}
			}
		}
		const al = "0123456789ABCDEFGHIJKLMNOPQRSTUVWXYZabcdefghijklmnopqrstuvwxyz"
		for i := 0; i < len(al); i++ {
			if r.IntN(12) == 0 {
				continue
			}
			p := base + string(al[i]) + Lits[r.IntN(len(Lits))]
			if r.IntN(4) == 0 {
				p += "/{p9}"
			}
			if try(p) {
				acc = append(acc, p)
			}
		}
		for _, p := range []string{base + "{p8}", base + "*{c8}", base + "{p8}/x", base + "*{c8}/x"} {
			if r.IntN(2) == 0 && try(p) {
				acc = append(acc, p)
			}
		}
	}
	return acc
}

var Vals = []string{"a", "b", "ab", "1", "foo", "zz", "bar", "x", "foobar", "fo", "q", "*a", "{a", "a}", "a:b", "%41", "é", "*{c1}", "{p1}", "ba", "my report", "~a", "$b", "caf\u00e9 x", "a|b", "^"}
var HostVals = []string{"a", "b", "x", "foo", "1", "a-b", "com", "co", "*a", "{a", "ab"}
var CatchVals = []string{"a", "1/2", "a/b/c", "foo/bar", "b", "x/a", "q/x/y", "*a/b", "a/{p", "foo", "ab/ba"}

// Instantiate substitutes values for the wildcards of a pattern and returns host and path.
func Instantiate(r *rand.Rand, p string) (host, path string, vals []string) {
	var sb strings.Builder
	hostEnd := strings.IndexByte(p, '/')
	i := 0
	for i < len(p) {
		if p[i] == '{' {
			j := strings.IndexByte(p[i:], '}')
			var v string
			if i < hostEnd {
				v = HostVals[r.IntN(len(HostVals))]
			} else {
				v = Vals[r.IntN(len(Vals))]
			}
			vals = append(vals, v)
			sb.WriteString(v)
			i += j + 1
		} else if p[i] == '*' && i+1 < len(p) && p[i+1] == '{' {
			j := strings.IndexByte(p[i:], '}')
			v := CatchVals[r.IntN(len(CatchVals))]
			vals = append(vals, v)
			sb.WriteString(v)
			i += j + 1
		} else {
			sb.WriteByte(p[i])
			i++
		}
	}
	s := sb.String()
	// the host part of the instantiated string ends where the pattern's host ended plus substitutions:
	// recompute by instantiating the host separately is unnecessary: hosts never contain '/'
	k := strings.IndexByte(s, '/')
	return s[:k], s[k:], vals
}

func toggleSlash(path string) string {
	if strings.HasSuffix(path, "/") && len(path) > 1 {
		return path[:len(path)-1]
	}
	return path + "/"
}

var JunkHosts = []string{"", "localhost", "127.0.0.1", "[::1]", "[::1]:80", "a:b:c", "a.com:x", ".", "..", "a..com", "com", "a", "x.y.z", "a.com.", "a.com..", "A.COM", "{h0}.com", "*", "a.com:80", "a.com.:8080"}

// Perturb mutates a request derived from a pattern so that it lands next to the pattern's language.
func Perturb(r *rand.Rand, host, path string) (string, string) {
	switch r.IntN(16) {
	case 0:
		path = toggleSlash(path)
	case 1:
		path += "/" + Vals[r.IntN(len(Vals))]
	case 2:
		if k := strings.LastIndexByte(path, '/'); k > 0 {
			path = path[:k]
		}
	case 3:
		path += Vals[r.IntN(len(Vals))]
	case 4:
		if host != "" {
			host += "x"
		} else {
			host = Hosts[r.IntN(2)]
		}
	case 5:
		if host != "" {
			host = "z." + host
		}
	case 6:
		if host != "" {
			host += ".org"
		}
	case 7:
		if len(path) > 2 {
			k := 1 + r.IntN(len(path)-1)
			path = path[:k] + "q" + path[k:]
		}
	case 8:
		if host != "" {
			host += ":8080"
		}
	case 9:
		if host != "" {
			host += "."
		}
	case 10:
		if len(host) > 1 {
			host = host[:len(host)-1]
		}
	case 11:
		if k := strings.IndexByte(host, '.'); k >= 0 {
			host = host[k+1:]
		}
	case 12:
		if len(path) > 2 {
			k := 1 + r.IntN(len(path)-1)
			path = path[:k] + path[k+1:]
		}
	case 13:
		host = JunkHosts[r.IntN(len(JunkHosts))]
	case 14:
		if host != "" {
			host = "x" + host
		}
	case 15:
		if k := strings.LastIndexByte(host, '.'); k >= 0 {
			host = host[:k]
		}
	}
	if r.IntN(3) == 0 {
		path = toggleSlash(path)
	}
	if path == "" {
		path = "/"
	}
	return host, path
}

// HasEmptySegment reports whether the path contains "//" (excluded from route-identity comparison).
func HasEmptySegment(path string) bool { return strings.Contains(path, "//") }
