// C03: a published routing state never changes (snapshot immutability).
// Oracle: every retained snapshot (router Iter, read-only transaction, Txn.Snapshot, write-transaction Iter) is
// re-observed after every later operation, commit and abort; its structural fingerprint (hook) and its deep
// observation (All/Methods/Has/Route/Routes/Prefix + Reverse/Lookup with parameters on a probe set) must stay
// byte-identical. A twin router executing the same writes without any snapshot must end in the same state.
// Concurrent phase (race mode): readers keep re-observing retained snapshots while writers commit.
package main

import (
	"fmt"
	"math/rand/v2"
	"net/http"
	"net/url"
	"regexp"
	"runtime"
	"strings"
	"sync"
	"sync/atomic"

	"foxverif/conc"
	"foxverif/gen"
	"foxverif/hist"
	"foxverif/kit"

	"github.com/tigerwill90/fox"
)

const rule = "cases = mutation histories (as C02) with snapshot-taking steps inserted at random points, including inside write transactions between writes; uniform histories, directed transaction stories and fully populated >50-children pools; every route is stamped with its model id so that a route object edited in place shows; verb stories (roots of custom verbs removed and re-created between writes); n snapshots between two writes of one transaction for n around powers of two up to 65537; " +
	"evaluations = re-observations of a retained snapshot after a later operation; distinct by (history prefix, snapshot index); " +
	"non-trivial when at least one successful write happened between the snapshot and the re-observation"

type snap struct {
	kind    string
	v       hist.Viewer // nil for a bare Iter
	it      fox.Iter
	txn     *fox.Txn // read txn / Txn.Snapshot (for Reverse/Lookup)
	fp      string
	obs     string
	takenAt int
	writes  int // successful writes at the time of the snapshot
}

func main() {
	run := kit.Start("C03", rule)
	defer run.Finish()
	if run.ReplayIn != "" {
		var c caseFile
		if err := kit.LoadReplay(run.ReplayIn, &c); err != nil {
			run.Inconclusive("cannot load replay: %v", err)
			return
		}
		check(run, c)
		return
	}
	n := run.Pick(1000, 30000)
	if run.Mode() == "race" {
		n = run.Pick(100, 2000)
	}
	const per = 10
	run.Parallel(n/per, func(batch int) {
		r := run.Rand(uint64(batch))
		for i := 0; i < per; i++ {
			c := caseFile{Case: hist.Case{Methods: hist.MethodPool}}
			c.Pool = hist.GenPool(r, 6+r.IntN(20), r.IntN(30) == 0)
			if len(c.Pool) == 0 {
				continue
			}
			switch {
			case i == 0:
				// a node with more than 50 children, fully populated, then edited
				c.Methods = hist.MethodPool[:1]
				c.Pool = hist.GenPool(r, 4+r.IntN(6), true)
				hist.GenFull(r, &c.Case, run.Pick(30, 60), 1+r.IntN(2))
			case i == 5 || i == 8:
				hist.GenVerbStory(r, &c.Case)
			case i%3 == 2:
				c.Methods = hist.MethodPool[:1]
				hist.GenPartial(r, &c.Case, 3, 5)
				hist.GenOps(r, &c.Case, len(c.Ops)+run.Pick(30, 60), 1+r.IntN(2), false)
			case i%3 == 1:
				hist.GenStory(r, &c.Case)
			default:
				hist.GenOps(r, &c.Case, run.Pick(40, 80), 1+r.IntN(2), false)
			}
			for j := range c.Ops {
				if r.IntN(5) == 0 {
					c.SnapAt = append(c.SnapAt, j)
					c.SnapKind = append(c.SnapKind, r.IntN(4))
				}
			}
			check(run, c)
		}
	})
	if run.Thorough() || run.Mode() == "plain" {
		big(run)
		manySnapshots(run)
	}
	if run.Mode() == "race" {
		concurrent(run)
		// the state a request is being served from does not change under it either: all lookups of one request
		// (405 / automatic OPTIONS probing of the other methods) use the tree the request started with
		conc.AllowFlip(run)
		conc.MethodFlip(run)
	}
}

type caseFile struct {
	hist.Case
	SnapAt   []int `json:"snap_at"`   // take a snapshot before executing op #i
	SnapKind []int `json:"snap_kind"` // 0 router Iter, 1 read txn, 2 Txn.Snapshot (if a write txn is open, else read txn), 3 write-txn Iter (else router Iter)
}

var ptrRe = regexp.MustCompile(`@0x[0-9a-f]+|=0x[0-9a-f]+`)

func probes(pool []string) []probe {
	r := rand.New(rand.NewPCG(7, 7))
	var out []probe
	for i, p := range pool {
		if i%2 == 1 {
			continue
		}
		h, path, _ := gen.Instantiate(r, p)
		out = append(out, probe{h, path})
	}
	return out
}

type probe struct{ host, path string }

// lookups renders Reverse and Lookup(+params) answers of a transaction for the probe set.
func lookups(t *fox.Txn, methods []string, ps []probe) string {
	var sb strings.Builder
	for _, m := range methods {
		for _, p := range ps {
			rte, tsr := t.Reverse(m, p.host, p.path)
			req := &http.Request{Method: m, Host: p.host, URL: &url.URL{Path: p.path}, Header: http.Header{}}
			r2, cc, tsr2 := t.Lookup(nil, req)
			fmt.Fprintf(&sb, "%s %s%s -> %p %t |", m, p.host, p.path, rte, tsr)
			if r2 != nil {
				for prm := range cc.Params() {
					fmt.Fprintf(&sb, " %s=%s", prm.Key, prm.Value)
				}
				cc.Close()
			}
			fmt.Fprintf(&sb, " %p %t\n", r2, tsr2)
		}
	}
	return sb.String()
}

func observe(w *hist.World, s *snap, ps []probe) (string, string) {
	methods := append(append([]string(nil), w.Methods...), "TRACE")
	obs := hist.ObserveIter(s.v, s.it, methods, w.Universe, prefixesOf(w.Universe))
	if s.txn != nil {
		obs += lookups(s.txn, w.Methods, ps)
	}
	return fox.VerifFingerprint(s.it), obs
}

func prefixesOf(u []string) []string {
	out := []string{"", "/"}
	for i, p := range u {
		if i%4 == 0 {
			out = append(out, p[:len(p)/2])
		}
	}
	return out
}

func take(w *hist.World, kind int, at, writes int, ps []probe) *snap {
	s := &snap{takenAt: at, writes: writes}
	switch {
	case kind == 2 && w.Txn != nil:
		t := w.Txn.Snapshot()
		s.kind, s.v, s.it, s.txn = "Txn.Snapshot", t, t.Iter(), t
	case kind == 3 && w.Txn != nil:
		s.kind, s.v, s.it = "write-txn Iter", nil, w.Txn.Iter()
	case kind == 1 || kind == 2:
		t := w.F.Txn(false)
		s.kind, s.v, s.it, s.txn = "read txn", t, t.Iter(), t
	default:
		s.kind, s.v, s.it = "router Iter", nil, w.F.Iter()
	}
	s.fp, s.obs = observe(w, s, ps)
	return s
}

func check(run *kit.Run, c caseFile) {
	id := fmt.Sprintf("%v|%s|%v%v", c.Pool, c.Case.String(), c.SnapAt, c.SnapKind)
	if len(id) > 400 {
		id = id[:400] + fmt.Sprint(len(id))
	}
	run.Guard("panic|"+id, c, func() {
		w := hist.NewWorld(c.Case)
		twin := hist.NewWorld(c.Case)
		ps := probes(c.Pool)
		var snaps []*snap
		writes := 0
		si := 0
		for i, op := range c.Ops {
			for si < len(c.SnapAt) && c.SnapAt[si] == i {
				snaps = append(snaps, take(w, c.SnapKind[si], i, writes, ps))
				run.Count("snapshots_"+snaps[len(snaps)-1].kind, 1)
				si++
			}
			w.Apply(op)
			twin.Apply(op)
			if w.LastWant == "" && op.Kind != "begin" && op.Kind != "abort" && op.Bad == "" {
				writes++
			}
			for k, s := range snaps {
				fp, obs := observe(w, s, ps)
				run.Case(fmt.Sprintf("%s|%d|%d", id, i, k), writes > s.writes)
				if fp != s.fp || obs != s.obs {
					what := hist.Diff(s.obs, obs)
					if fp != s.fp && what == "" {
						what = "structural fingerprint changed:\n" + hist.Diff(s.fp, fp)
					}
					run.Violate("snapshot-changed|"+id+fmt.Sprint(k), fmt.Sprintf("%s taken before op #%d changed after op #%d (%s)\n%s\npool: %v\nhistory: %s", s.kind, s.takenAt, i, op, what, c.Pool, c.Case.String()), c)
					return
				}
			}
		}
		if w.Txn != nil {
			w.Txn.Abort()
			twin.Txn.Abort()
		}
		// writes are unaffected by the existence of snapshots
		a := ptrRe.ReplaceAllString(fox.VerifFingerprint(w.F.Iter()), "")
		b := ptrRe.ReplaceAllString(fox.VerifFingerprint(twin.F.Iter()), "")
		run.Count("twin_comparisons", 1)
		if a != b {
			run.Violate("twin|"+id, fmt.Sprintf("router that took snapshots ends in a different tree than its twin that did not\n%s\npool: %v\nhistory: %s", hist.Diff(b, a), c.Pool, c.Case.String()), c)
		}
		if run.WantSample() && len(snaps) > 0 {
			run.Sample(map[string]any{"pool": c.Pool, "history": c.Case.String(), "snapshots_before_ops": c.SnapAt, "snapshot_kinds": c.SnapKind})
		}
	})
}

// big exercises transactions that touch more nodes than the copy cache holds (4096), with snapshots before,
// inside and after.
func big(run *kit.Run) {
	rounds := run.Pick(2, 12)
	run.Parallel(rounds, func(b int) {
		r := run.Rand(uint64(1000 + b))
		run.Guard(fmt.Sprintf("big|%d", b), map[string]any{"big_round": b}, func() {
			f, _ := fox.New()
			h := func(fox.Context) {}
			pat := func(i int) string { return fmt.Sprintf("/n%d/s%d/{p}/t%d", i%97, i%13, i) }
			for i := 0; i < 3000; i++ {
				f.MustHandle("GET", pat(i), h)
			}
			type ss struct {
				it      fox.Iter
				fp, lst string
			}
			listing := func(it fox.Iter) string {
				n := 0
				var sb strings.Builder
				for m, rt := range it.All() {
					n++
					if n%50 == 0 {
						fmt.Fprintf(&sb, "%s %s %p\n", m, rt.Pattern(), rt)
					}
				}
				fmt.Fprintf(&sb, "n=%d", n)
				return sb.String()
			}
			var snaps []ss
			takeIt := func(it fox.Iter) { snaps = append(snaps, ss{it, fox.VerifFingerprint(it), listing(it)}) }
			verify := func(stage string) {
				for k, s := range snaps {
					run.Case(fmt.Sprintf("big|%d|%s|%d", b, stage, k), true)
					if fox.VerifFingerprint(s.it) != s.fp || listing(s.it) != s.lst {
						run.Violate(fmt.Sprintf("snapshot-changed-big|%d|%s|%d", b, stage, k), fmt.Sprintf("snapshot #%d changed at stage %s of a transaction touching more nodes than the copy cache holds", k, stage), map[string]any{"big_round": b})
					}
				}
			}
			takeIt(f.Iter())
			txn := f.Txn(true)
			touched := 0
			for i := 0; i < 9000; i++ {
				switch r.IntN(3) {
				case 0:
					if _, err := txn.Handle("GET", pat(3000+i), h); err == nil {
						touched++
					}
				case 1:
					if _, err := txn.Update("GET", pat(r.IntN(3000)), h); err == nil {
						touched++
					}
				default:
					if _, err := txn.Delete("GET", pat(r.IntN(3000))); err == nil {
						touched++
					}
				}
				if i%1500 == 700 {
					takeIt(txn.Iter())
					takeIt(txn.Snapshot().Iter())
					verify(fmt.Sprint("inside@", i))
				}
			}
			verify("before-commit")
			txn.Commit()
			takeIt(f.Iter())
			verify("after-commit")
			f.MustHandle("GET", "/zz/last", h)
			verify("after-later-write")
			run.Count("big_txn_successful_writes", int64(touched))
		})
	})
	run.SetExtra("big_transactions", fmt.Sprintf("%d transactions of 9000 write attempts over 3000 pre-registered routes (more nodes touched than the 4096-entry copy cache), snapshots before / inside (6 points, Iter and Txn.Snapshot) / after", rounds))
}

// concurrent: readers re-observe retained snapshots while writers commit (meant for the race detector).
func concurrent(run *kit.Run) {
	rounds := run.Pick(6, 60)
	for round := 0; round < rounds; round++ {
		r := run.Rand(uint64(5000 + round))
		c := hist.Case{Methods: hist.MethodPool[:2]}
		c.Pool = hist.GenPool(r, 10+r.IntN(10), false)
		if len(c.Pool) == 0 {
			continue
		}
		w := hist.NewWorld(c)
		h := func(fox.Context) {}
		for _, p := range c.Pool[:len(c.Pool)/2] {
			_, _ = w.F.Handle("GET", p, h)
		}
		var stop atomic.Bool
		var wg sync.WaitGroup
		var reobs atomic.Int64
		for wr := 0; wr < 2; wr++ {
			wg.Add(1)
			rw := run.Rand(uint64(9000 + round*10 + wr))
			go func() {
				defer wg.Done()
				for i := 0; i < 400 && !stop.Load(); i++ {
					m := c.Methods[rw.IntN(len(c.Methods))]
					p := c.Pool[rw.IntN(len(c.Pool))]
					switch rw.IntN(4) {
					case 0:
						_, _ = w.F.Handle(m, p, h)
					case 1:
						_, _ = w.F.Update(m, p, h)
					case 2:
						_, _ = w.F.Delete(m, p)
					default:
						_ = w.F.Updates(func(txn *fox.Txn) error {
							for k := 0; k < 3; k++ {
								_, _ = txn.Handle(m, c.Pool[rw.IntN(len(c.Pool))], h)
								_, _ = txn.Delete(m, c.Pool[rw.IntN(len(c.Pool))])
							}
							_ = txn.Iter()
							return nil
						})
					}
					runtime.Gosched()
				}
			}()
		}
		methods := append(append([]string(nil), c.Methods...), "TRACE")
		ps := probes(c.Pool)
		for rd := 0; rd < 6; rd++ {
			wg.Add(1)
			go func(rd int) {
				defer wg.Done()
				for j := 0; j < 25; j++ {
					t := w.F.Txn(false)
					it := t.Iter()
					first := hist.ObserveIter(t, it, methods, c.Pool, nil) + lookups(t, c.Methods, ps) + fox.VerifFingerprint(it)
					for k := 0; k < 6; k++ {
						runtime.Gosched()
						again := hist.ObserveIter(t, it, methods, c.Pool, nil) + lookups(t, c.Methods, ps) + fox.VerifFingerprint(it)
						reobs.Add(1)
						run.Case(fmt.Sprintf("conc|%d|%d|%d|%d", round, rd, j, k), true)
						if again != first {
							run.Violate(fmt.Sprintf("snapshot-changed-concurrent|%d", round), fmt.Sprintf("a retained read transaction changed while writers were committing\n%s\npool: %v", hist.Diff(first, again), c.Pool), map[string]any{"pool": c.Pool, "round": round})
							stop.Store(true)
							return
						}
					}
				}
			}(rd)
		}
		wg.Wait()
		run.Count("concurrent_reobservations", reobs.Load())
	}
}

// manySnapshots: a transaction may take any number of snapshots; the first ones stay what they were. Between two
// writes that go through the same nodes, n snapshots (Txn.Iter and Txn.Snapshot alternating) are taken for n around
// the sizes at which small counters wrap; the first, a middle and the last snapshot are re-observed after the second
// write, after more writes and after the ending.
func manySnapshots(run *kit.Run) {
	h := func(fox.Context) {}
	methods := []string{"GET", "POST", "TRACE"}
	universe := []string{"/a/x", "/a/y", "/a/z", "/a", "/b/{p}", "/a/x/deep/{q}", "h.com/a/x"}
	for _, n := range []int{1, 2, 3, 127, 128, 129, 255, 256, 257, 511, 512, 513, 1024, 65535, 65536, 65537} {
		if n > 2000 && !run.Thorough() {
			continue
		}
		for _, ending := range []string{"commit", "abort"} {
			id := fmt.Sprintf("many-snapshots|n=%d|%s", n, ending)
			run.Case(id, true)
			run.Guard("panic|"+id, map[string]any{"snapshots": n, "ending": ending}, func() {
				f, _ := fox.New()
				for _, p := range []string{"/a", "/b/{p}", "h.com/a/x"} {
					f.MustHandle("GET", p, h)
				}
				txn := f.Txn(true)
				_, _ = txn.Handle("GET", "/a/x", h) // W1
				type held struct {
					name string
					it   fox.Iter
					v    hist.Viewer
					obs  string
					fp   string
				}
				var keep []*held
				take := func(i int) {
					var hd *held
					if i%2 == 0 {
						hd = &held{name: fmt.Sprintf("Txn.Iter() #%d", i), it: txn.Iter()}
					} else {
						sn := txn.Snapshot()
						hd = &held{name: fmt.Sprintf("Txn.Snapshot() #%d", i), it: sn.Iter(), v: sn}
					}
					if i == 0 || i == n/2 || i == n-1 {
						hd.obs = hist.ObserveIter(hd.v, hd.it, methods, universe, []string{"", "/", "/a"})
						hd.fp = fox.VerifFingerprint(hd.it)
						keep = append(keep, hd)
					}
				}
				for i := 0; i < n; i++ {
					take(i)
				}
				recheck := func(when string) {
					for _, hd := range keep {
						run.Eval(1)
						if hist.ObserveIter(hd.v, hd.it, methods, universe, []string{"", "/", "/a"}) != hd.obs || fox.VerifFingerprint(hd.it) != hd.fp {
							run.Violate("snapshot-changed|"+id, fmt.Sprintf("%s of a write transaction in which %d snapshots were taken between two writes changed %s", hd.name, n, when), map[string]any{"snapshots": n, "ending": ending})
						}
					}
				}
				_, _ = txn.Handle("GET", "/a/y", h) // W2, through the nodes W1 created
				recheck("after the next write")
				_, _ = txn.Update("GET", "/a/x", h)
				_, _ = txn.Delete("GET", "/a")
				_, _ = txn.Handle("GET", "/a/x/deep/{q}", h)
				recheck("after three more writes")
				if ending == "commit" {
					txn.Commit()
				} else {
					txn.Abort()
				}
				recheck("after the transaction ended (" + ending + ")")
			})
		}
	}
}
