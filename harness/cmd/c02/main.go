// C02: registered routes behave as an exact map keyed by (method, pattern).
// Oracle: ref.Table stepped in lock-step with the real router; after every operation the full observable state
// (Len, Methods, All, Has, Route, Iter.Routes, Iter.Prefix) of the router - and of the open write transaction - is
// compared with the model, every return value / error class / conflict list is compared, and a failed call must
// leave the structural fingerprint untouched.
package main

import (
	"fmt"
	"os"
	"path/filepath"
	"sort"
	"strings"

	"foxverif/hist"
	"foxverif/kit"

	"github.com/tigerwill90/fox"
)

const rule = "cases = histories of Handle/HandleRoute/Update/UpdateRoute/Delete/Truncate (direct and inside committed/aborted transactions, " +
	"with single-cause invalid calls) over trie-grown pattern pools with conflicting wildcard-name variants, truncations of pool patterns and common prefixes of pairs (never-registered patterns ending inside / exactly at tree edges) and 5 methods; " +
	"uniform histories, directed transaction stories (write a pattern others extend, write below it, abort/commit), fully populated fan-out pools then edits, quiet transactions (not observed between their writes); " +
	"evaluations = operations executed, each followed by a full comparison of every read API with the map model; " +
	"distinct by (pool, history prefix); non-trivial when the operation is a write attempted on a non-empty table"

func main() {
	run := kit.Start("C02", rule)
	defer run.Finish()
	if run.ReplayIn != "" {
		var c hist.Case
		if err := kit.LoadReplay(run.ReplayIn, &c); err != nil {
			run.Inconclusive("cannot load replay: %v", err)
			return
		}
		check(run, c)
		return
	}
	if dir := os.Getenv("VERIF_CORPUS"); dir != "" {
		files, _ := filepath.Glob(filepath.Join(dir, "C02", "*.json"))
		sort.Strings(files)
		for _, f := range files {
			var c hist.Case
			if err := kit.LoadReplay(f, &c); err != nil {
				run.Inconclusive("corpus %s: %v", f, err)
				continue
			}
			check(run, c)
			run.Count("corpus_cases", 1)
		}
	}
	deep(run)
	n := run.Pick(2000, 60000)
	ops := run.Pick(60, 120)
	const per = 20
	run.Parallel(n/per, func(batch int) {
		r := run.Rand(uint64(batch))
		for i := 0; i < per; i++ {
			c := hist.Case{Methods: hist.MethodPool}
			c.Pool = hist.GenPool(r, 8+r.IntN(32), r.IntN(25) == 0)
			if len(c.Pool) == 0 {
				continue
			}
			switch {
			case i == 7 || i == 13:
				hist.GenVerbStory(r, &c)
			case i%5 == 3:
				c.Methods = hist.MethodPool[:1]
				hist.GenPartial(r, &c, 3, 5)
				hist.GenOps(r, &c, len(c.Ops)+ops/2, r.IntN(3), false)
			case i%5 == 4:
				hist.GenStory(r, &c)
			case i == 0:
				c.Methods = hist.MethodPool[:1]
				c.Pool = hist.GenPool(r, 4+r.IntN(6), true)
				hist.GenFull(r, &c, ops/2, r.IntN(3))
			default:
				hist.GenOps(r, &c, ops, r.IntN(3), true)
			}
			c.Tight = i%4 == 2
			if i%5 == 1 {
				// custom verbs next to the standard ones they resemble (same length, same first letter, same prefix)
				c.Methods = []string{"GET", "GIT", "POST", "PUSH", "DELETE", "DEPLOY", "PUT", "PUB"}
				for j := range c.Ops {
					if c.Ops[j].Method != "" && c.Ops[j].Bad == "" {
						c.Ops[j].Method = c.Methods[(j*7+len(c.Ops[j].Pattern))%len(c.Methods)]
					}
				}
			}
			check(run, c)
		}
	})
}

// deep: chains of more than 25 nested nodes (the iterators switch from a stack-allocated to a heap-allocated stack at
// depth 25) and a node with more than 50 children, mutated by random histories.
func deep(run *kit.Run) {
	rounds := run.Pick(6, 60)
	run.Parallel(rounds, func(b int) {
		r := run.Rand(uint64(900000 + b))
		c := hist.Case{Methods: hist.MethodPool[:2]}
		p := ""
		var chain []string
		for i := 0; i < 34; i++ {
			switch i % 5 {
			case 3:
				p += fmt.Sprintf("/{p%d}", i)
			default:
				p += "/" + string(rune('a'+i%26))
			}
			c.Pool = append(c.Pool, p)
			chain = append(chain, p)
			// a sibling that sorts after the chain's next element, at every level
			chain = append(chain, p+"/~"+string(rune('a'+i%26)))
			c.Pool = append(c.Pool, p+"/~"+string(rune('a'+i%26)))
			if i%4 == 0 {
				c.Pool = append(c.Pool, p+"/")
				if !strings.HasSuffix(p, "}") {
					c.Pool = append(c.Pool, p+"x")
				}
			}
		}
		const al = "0123456789ABCDEFGHIJKLMNOPQRSTUVWXYZabcdefghijklmnopqrstuvwxyz"
		for i := 0; i < len(al); i++ {
			c.Pool = append(c.Pool, "/fan/"+string(al[i])+"x")
		}
		c.Pool = append(c.Pool, "/fan/{p}", "/fan/*{c}")
		// two rounds out of three start from the fully registered ladder (so that the tree really is deeper than 25),
		// registered shortest-first, longest-first (every insert splits above existing sub-trees) or in random order
		switch b % 3 {
		case 1:
			for i := len(chain) - 1; i >= 0; i-- {
				c.Ops = append(c.Ops, hist.Op{Kind: "handle", Method: c.Methods[0], Pattern: chain[i]})
			}
		case 2:
			for _, i := range r.Perm(len(chain)) {
				c.Ops = append(c.Ops, hist.Op{Kind: "handle", Method: c.Methods[0], Pattern: chain[i]})
			}
			if b%2 == 0 {
				c.Ops = nil
				for _, q := range chain {
					c.Ops = append(c.Ops, hist.Op{Kind: "handle", Method: c.Methods[0], Pattern: q})
				}
			}
		}
		hist.GenOps(r, &c, len(c.Ops)+200, r.IntN(3), false)
		check(run, c)
		run.Count("deep_chain_histories", 1)
	})
}

func check(run *kit.Run, c hist.Case) {
	id := fmt.Sprintf("%v|%s", c.Pool, c.String())
	run.Guard("panic|"+id, c, func() {
		w := hist.NewWorld(c)
		// Observing a write transaction through Txn.Iter() resets its copy cache, which would hide defects that need the
		// cache to survive from one write to the next: in every other history the open transaction is left alone between
		// its writes (the router, which must not show them, is still observed after every step) and only read right
		// before it ends.
		quiet := len(c.Pool)%2 == 0
		for i, op := range c.Ops {
			nonEmpty := w.Committed.Len() > 0 || (w.Pending != nil && w.Pending.Len() > 0)
			var before string
			if w.Txn != nil && !quiet {
				before = fox.VerifFingerprint(w.Txn.Iter())
			} else if w.Txn == nil {
				before = fox.VerifFingerprint(w.F.Iter())
			}
			if quiet && w.Txn != nil && (op.Kind == "commit" || op.Kind == "abort") {
				if want, got := w.Expect(w.Pending), w.Observe(w.Txn); want != got {
					run.Violate("txn-view|"+id[:min(len(id), 300)]+fmt.Sprint(i), fmt.Sprintf("before op #%d (%s) the open transaction differs from the map model\n%s\npool: %v\nhistory: %s", i, op, hist.Diff(want, got), c.Pool, c.String()), c)
					return
				}
				run.Count("txn_view_comparisons_before_ending", 1)
			}
			nprob := len(w.Problems)
			w.Apply(op)
			for _, p := range w.Problems[nprob:] {
				run.Violate("return|"+id[:min(len(id), 300)]+fmt.Sprint(i), fmt.Sprintf("op #%d of history\npool: %v\nhistory: %s\n%s", i, c.Pool, c.String(), p), c)
			}
			run.Count("op_"+op.Kind, 1)
			if op.Bad != "" {
				run.Count("invalid_calls", 1)
			}
			// router view == committed model
			if want, got := w.Expect(w.Committed), w.Observe(w.F); want != got {
				run.Violate("router-view|"+id[:min(len(id), 300)]+fmt.Sprint(i), fmt.Sprintf("after op #%d (%s) the router differs from the map model\n%s\npool: %v\nhistory: %s", i, op, hist.Diff(want, got), c.Pool, c.String()), c)
				return
			}
			// the router also ROUTES like the model (lookups, not only exact reads); every third step
			if i%3 == 0 || op.Kind == "commit" || op.Kind == "abort" {
				if d := w.RoutingProblem(w.F, w.Committed); d != "" {
					run.Violate("router-routing|"+id[:min(len(id), 300)]+fmt.Sprint(i), fmt.Sprintf("after op #%d (%s) the router does not route like the map model: %s\npool: %v\nhistory: %s", i, op, d, c.Pool, c.String()), c)
					return
				}
				run.Count("routing_comparisons", 1)
				if w.Txn != nil && !quiet {
					if d := w.RoutingProblem(w.Txn, w.Pending); d != "" {
						run.Violate("txn-routing|"+id[:min(len(id), 300)]+fmt.Sprint(i), fmt.Sprintf("after op #%d (%s) the open transaction does not route like the map model: %s\npool: %v\nhistory: %s", i, op, d, c.Pool, c.String()), c)
						return
					}
				}
			}
			if w.Txn != nil && !quiet {
				if want, got := w.Expect(w.Pending), w.Observe(w.Txn); want != got {
					run.Violate("txn-view|"+id[:min(len(id), 300)]+fmt.Sprint(i), fmt.Sprintf("after op #%d (%s) the open transaction differs from the map model\n%s\npool: %v\nhistory: %s", i, op, hist.Diff(want, got), c.Pool, c.String()), c)
					return
				}
				run.Count("txn_view_comparisons", 1)
				// a snapshot of the open transaction (and a snapshot of that snapshot) shows the same state, Len included
				if i%4 == 1 {
					if sn := w.Txn.Snapshot(); sn != nil {
						if want, got := w.Expect(w.Pending), w.Observe(sn); want != got {
							run.Violate("txn-snapshot-view|"+id[:min(len(id), 300)]+fmt.Sprint(i), fmt.Sprintf("after op #%d (%s) a Snapshot() of the open transaction differs from the map model\n%s\npool: %v\nhistory: %s", i, op, hist.Diff(want, got), c.Pool, c.String()), c)
							return
						}
						if sn2 := sn.Snapshot(); sn2 != nil {
							if want, got := w.Expect(w.Pending), w.Observe(sn2); want != got {
								run.Violate("txn-snapshot-view|"+id[:min(len(id), 300)]+fmt.Sprint(i), fmt.Sprintf("after op #%d (%s) a snapshot of a snapshot of the open transaction differs from the map model\n%s", i, op, hist.Diff(want, got)), c)
								return
							}
						}
						run.Count("txn_snapshot_comparisons", 1)
					}
				}
			}
			// a failed call changes nothing
			if len(w.Problems) == nprob && failed(w, op, before) && before != "" {
				var after string
				if w.Txn != nil {
					after = fox.VerifFingerprint(w.Txn.Iter())
				} else {
					after = fox.VerifFingerprint(w.F.Iter())
				}
				run.Count("failed_calls_fingerprint_compared", 1)
				if after != before {
					run.Violate("failed-call-mutates|"+id[:min(len(id), 300)]+fmt.Sprint(i), fmt.Sprintf("failed op #%d (%s) changed the tree\npool: %v\nhistory: %s\nbefore:\n%s\nafter:\n%s", i, op, c.Pool, c.String(), before, after), c)
				}
			}
			run.Case(fmt.Sprintf("%v|%v", c.Pool, c.Ops[:i+1]), nonEmpty && op.Kind != "begin" && op.Kind != "commit" && op.Kind != "abort")
		}
		if w.Txn != nil {
			w.Txn.Abort()
		}
		if run.WantSample() {
			run.Sample(map[string]any{"pool": c.Pool, "history": c.String(), "final_len": w.Committed.Len()})
		}
	})
}

// failed reports whether the model expected the last operation to fail.
func failed(w *hist.World, op hist.Op, _ string) bool {
	return w.LastWant != ""
}
