// C08: trailing-slash actions happen exactly when a slash-adjusted route exists.
// Oracles: ref.Lookup (slash-adjusted reference), fox's own direct lookup of the adjusted path (self-consistency),
// the ServeHTTP action table, net/url resolution of the Location header, and a metamorphic monitor (unrelated
// routes never change the outcome).
package main

import (
	"fmt"
	"math/rand/v2"
	"net/url"
	"os"
	"path/filepath"
	"sort"
	"strings"

	"foxverif/gen"
	"foxverif/kit"
	"foxverif/ref"
	"foxverif/route"

	"github.com/tigerwill90/fox"
)

const rule = "cases = (trie-grown route set with random global/per-route ignore/redirect options, request with and without trailing slash, " +
	"methods GET/POST/CONNECT, plain and percent-encoded last segments, query strings, unclean paths; a quarter of the cases after delete churn); distinct by (route set, options, request); " +
	"non-trivial when the reference finds no direct match but the request is within one trailing slash of a registered pattern's language " +
	"or fox reports a trailing-slash opportunity"

func main() {
	run := kit.Start("C08", rule)
	defer run.Finish()
	if run.ReplayIn != "" {
		var c route.Case
		if err := kit.LoadReplay(run.ReplayIn, &c); err != nil {
			run.Inconclusive("cannot load replay: %v", err)
			return
		}
		check(run, c, nil)
		return
	}
	if dir := os.Getenv("VERIF_CORPUS"); dir != "" {
		files, _ := filepath.Glob(filepath.Join(dir, "C08", "*.json"))
		sort.Strings(files)
		for _, f := range files {
			var c route.Case
			if err := kit.LoadReplay(f, &c); err != nil {
				run.Inconclusive("corpus %s: %v", f, err)
				continue
			}
			check(run, c, nil)
			run.Count("corpus_cases", 1)
		}
	}
	exhaustive(run)
	sets := run.Pick(4000, 900000)
	const per = 50
	run.Parallel(sets/per, func(batch int) {
		r := run.Rand(uint64(batch))
		for i := 0; i < per; i++ {
			pf := gen.DefaultProfile
			switch r.IntN(10) {
			case 0, 1, 2, 3:
				pf = gen.PathProfile
			case 4:
				pf = gen.HostProfile
			}
			pf.MaxSeg = 4
			if r.IntN(50) == 0 {
				pf.FanOut = true
			}
			c := route.GenCase(r, route.GenOpts{Profile: pf, Probes: 10, SlashModes: true, Methods: []string{"GET", "POST", "CONNECT"}})
			if len(c.Routes) == 0 {
				continue
			}
			c.Reqs = expand(r, c)
			if r.IntN(4) == 0 {
				c.Churn = r.Uint64() | 1
			}
			// a quarter of the cases give the routes their trailing-slash option through Update instead of at registration
			c.SlashViaUpdate = r.IntN(4) == 0
			check(run, c, r)
		}
	})
}

var slashPool = []string{"/a", "/a/", "/{p0}", "/{p0}/", "/*{c0}", "/a/b", "/a/b/", "/a/{p1}", "/a/{p1}/", "/{p0}/b/", "/a/*{c1}", "/a{p0}", "/a{p0}/", "/ab", "/a/bc/", "/*{c0}/b/", "/a/*{c1}/x/",
	// edges that split in the middle of a segment, right before a slash: /a is a leaf, /ab is only a branching point
	"/ab/x", "/abx", "/ab/x/"}

// exhaustive enumerates every set of <=3 patterns of a slash-focused pool x every path of <=3 segments (with and
// without trailing slash) x the two global trailing-slash modes.
func exhaustive(run *kit.Run) {
	vals := []string{"a", "b", "bc", "x", "ab"}
	var paths []string
	var rec func(prefix string, d int)
	rec = func(prefix string, d int) {
		if d > 0 {
			paths = append(paths, prefix, prefix+"/")
		}
		if d == 3 {
			return
		}
		for _, v := range vals {
			rec(prefix+"/"+v, d+1)
		}
	}
	rec("", 0)
	paths = append(paths, "/")
	var sets [][]int
	var comb func(start int, cur []int)
	comb = func(start int, cur []int) {
		if len(cur) > 0 {
			sets = append(sets, append([]int(nil), cur...))
		}
		if len(cur) == 3 {
			return
		}
		for i := start; i < len(slashPool); i++ {
			comb(i+1, append(cur, i))
		}
	}
	comb(0, nil)
	run.Parallel(len(sets), func(i int) {
		for mi, mode := range []string{"ignore", "redirect"} {
			c := route.Case{Global: []string{mode}}
			for _, k := range sets[i] {
				c.Routes = append(c.Routes, route.RouteSpec{Method: "GET", Pattern: slashPool[k]})
			}
			for j, p := range paths {
				m := "GET"
				if (i+j+mi)%5 == 0 {
					m = "POST"
				}
				c.Reqs = append(c.Reqs, route.Req{Method: "GET", Path: p})
				_ = m
			}
			check(run, c, nil)
		}
		run.Count("exhaustive_sets", 1)
	})
	run.SetExtra("exhaustive_subspace", fmt.Sprintf("all %d sets of <=3 patterns from a %d-pattern slash-focused pool x all %d paths of <=3 segments over %v (with and without trailing slash) x {ignore, redirect}: enumerated completely", len(sets), len(slashPool), len(paths), vals))
}

var hostile = []string{"a:b", "a?b", "a#b", "a%b", "a b", "é", "https:evil.com", "a;b", "a&b=c", "%2F", "a+b", "x%20y", "..a", "a..", "日本"}

// expand issues every probe with and without trailing slash and adds encoded / query / unclean variants.
func expand(r *rand.Rand, c route.Case) []route.Req {
	var out []route.Req
	add := func(q route.Req) {
		out = append(out, q)
		t := q
		if strings.HasSuffix(q.Path, "/") && len(q.Path) > 1 {
			t.Path = q.Path[:len(q.Path)-1]
			if t.RawPath != "" {
				t.RawPath = strings.TrimSuffix(t.RawPath, "/")
			}
		} else {
			t.Path = q.Path + "/"
			if t.RawPath != "" {
				t.RawPath += "/"
			}
		}
		out = append(out, t)
	}
	for _, q := range c.Reqs {
		switch r.IntN(8) {
		case 0:
			q.Method = "POST"
		case 1:
			q.Method = "CONNECT"
		}
		if r.IntN(3) == 0 {
			q.Query = []string{"a=1", "x=%2F&y=z", "q", "a=b&a=c"}[r.IntN(4)]
		}
		add(q)
	}
	// the empty path of an absolute-form target without a path ("GET http://a.b HTTP/1.1"), under the hosts in use:
	// it is a path other than '/', and adding the slash gives '/'
	if r.IntN(2) == 0 && len(c.Reqs) > 0 {
		q := c.Reqs[r.IntN(len(c.Reqs))]
		add(route.Req{Method: q.Method, Host: q.Host, Path: ""})
	}
	// hostile last segments: build the wire form a client would send and let net/url derive Path and RawPath from it,
	// exactly as the HTTP server does
	for _, rs := range c.Routes {
		if r.IntN(3) != 0 {
			continue
		}
		host, path, _ := gen.Instantiate(r, rs.Pattern)
		seg := hostile[r.IntN(len(hostile))]
		base := strings.TrimSuffix(path, "/")
		if k := strings.LastIndexByte(base, '/'); k >= 0 {
			base = base[:k+1]
		}
		base = (&url.URL{Path: base}).EscapedPath()
		var wire string
		switch r.IntN(3) {
		case 0: // canonical escaping
			wire = base + url.PathEscape(seg)
		case 1: // raw bytes where the wire allows them, reserved characters escaped
			wire = base + strings.NewReplacer("?", "%3F", "#", "%23", " ", "%20", "%", "%25").Replace(seg)
		default: // the segment is already percent-encoded text, over-escaped
			wire = base + strings.NewReplacer("?", "%3f", "#", "%23", " ", "%20", ":", "%3A", "a", "%61").Replace(seg)
		}
		u, err := url.ParseRequestURI(wire)
		if err != nil || !strings.HasPrefix(wire, "/") || u.Path == "" || u.Host != "" {
			continue
		}
		q := route.Req{Method: rs.Method, Host: host, Path: u.Path, RawPath: u.RawPath}
		if r.IntN(2) == 0 {
			q.Query = "k=v"
		}
		add(q)
	}
	// unclean paths: only the "never redirect an unclean path" rule and self-consistency apply to them
	for _, rs := range c.Routes {
		if r.IntN(4) != 0 {
			continue
		}
		host, path, _ := gen.Instantiate(r, rs.Pattern)
		var p string
		switch r.IntN(4) {
		case 0:
			p = strings.Replace(path, "/", "//", 1)
		case 1:
			p = "/." + path
		case 2:
			p = "/x/.." + path
		default:
			p = path + "/."
		}
		add(route.Req{Method: rs.Method, Host: host, Path: p})
	}
	return out
}

func adjusted(p string) string {
	if strings.HasSuffix(p, "/") {
		return p[:len(p)-1]
	}
	return p + "/"
}

func check(run *kit.Run, c route.Case, r *rand.Rand) {
	var b *route.Built
	run.Guard("build|"+c.RoutesString(), c, func() {
		var err error
		if b, err = route.Build(c); err != nil {
			run.Inconclusive("fox.New: %v", err)
			b = nil
		}
	})
	if b == nil {
		return
	}
	if b.Churned > 0 {
		run.Count("cases_with_delete_churn", 1)
		run.Count("churn_routes_added_and_deleted", int64(b.Churned))
	}
	if b.ChurnErr != "" {
		run.Violate("churn|"+c.RoutesString(), b.ChurnErr, c)
	}
	type outcome struct {
		got route.Obs
		s   route.ServeObs
	}
	outs := make([]outcome, len(c.Reqs))
	for i, q := range c.Reqs {
		run.Guard("probe|"+c.RoutesString()+"|"+q.String(), c, func() {
			g, sv := probe(run, c, b, q, i == 0)
			outs[i] = outcome{g, sv}
		})
	}
	// the same routes seen from inside the write transaction that registers them, before Commit, on a router whose
	// committed tree holds one single-parameter route of another verb (its pooled contexts are sized for that tree):
	// every lookup through the transaction gives the answer of the committed router above
	if len(c.Routes)%2 == 0 || len(c.Routes) < 4 {
		run.Guard("txn|"+c.RoutesString(), c, func() {
			c0 := c
			c0.Routes, c0.Churn = nil, 0
			b0, err := route.Build(c0)
			if err != nil {
				return
			}
			if _, err := b0.F.Handle("SEED", "/seed/{s}", b0.Handler()); err != nil {
				return
			}
			// warm the pool with contexts of the committed tree
			for i := 0; i < 3; i++ {
				route.LookupObs(b0.F, route.Req{Method: "SEED", Path: "/seed/1"})
			}
			txn := b0.F.Txn(true)
			defer txn.Abort()
			for _, rs := range c.Routes {
				if _, ok := b.Spec[rs.Method+" "+rs.Pattern]; !ok {
					continue
				}
				if _, err := txn.Handle(rs.Method, rs.Pattern, b0.Handler(), route.RouteOpts(rs)...); err != nil {
					run.Violate("txn-register|"+c.RoutesString(), fmt.Sprintf("a route the router accepted directly is refused inside a write transaction: %s %s: %v\nroutes: %s", rs.Method, rs.Pattern, err, c.RoutesString()), c)
					return
				}
			}
			for _, q := range c.Reqs {
				want := route.LookupObs(b.F, q)
				got := route.LookupObs(txn, q)
				run.Count("lookups_inside_the_registering_transaction", 1)
				if got.Pattern != want.Pattern || got.Tsr != want.Tsr || !route.SameParams(got.Params, want.Params) {
					run.Violate("txn-lookup|"+c.RoutesString()+"|"+q.String(), fmt.Sprintf("Txn.Lookup inside the uncommitted transaction that registered the routes differs from Router.Lookup after they are committed\nroutes: %s\nrequest: %s\nin the transaction: %s\ncommitted: %s", c.RoutesString(), q, got, want), c)
				}
			}
		})
	}
	// metamorphic monitor: registering routes that match neither form of a request never changes its outcome
	if r == nil {
		r = rand.New(rand.NewPCG(1, uint64(len(c.Routes))))
	}
	extras := siblings(r, c)
	if len(extras) == 0 {
		return
	}
	c2 := c
	c2.Routes = append(append([]route.RouteSpec(nil), c.Routes...), extras...)
	var b2 *route.Built
	run.Guard("build2|"+c2.RoutesString(), c2, func() {
		b2, _ = route.Build(c2)
	})
	if b2 == nil {
		return
	}
	accepted := map[string]bool{}
	for _, e := range extras {
		accepted[e.Method+" "+e.Pattern] = true
	}
	for _, e := range b2.Rejected {
		delete(accepted, e.Method+" "+e.Pattern)
	}
	for i, q := range c.Reqs {
		related := false
		for _, e := range extras {
			if !accepted[e.Method+" "+e.Pattern] {
				continue
			}
			if touches(e.Pattern, q) {
				related = true
				break
			}
		}
		if related {
			continue
		}
		run.Guard("meta|"+c2.RoutesString()+"|"+q.String(), c2, func() {
			got2 := route.LookupObs(b2.F, q)
			s2 := b2.Serve(q)
			o := outs[i]
			run.Count("metamorphic_comparisons", 1)
			if got2.Pattern != o.got.Pattern || got2.Tsr != o.got.Tsr || !route.SameParams(got2.Params, o.got.Params) ||
				s2.Status != o.s.Status || s2.Location != o.s.Location || s2.Seen.Kind != o.s.Seen.Kind || s2.Seen.Pattern != o.s.Seen.Pattern {
				var names []string
				for _, e := range extras {
					if accepted[e.Method+" "+e.Pattern] {
						names = append(names, e.Method+":"+e.Pattern)
					}
				}
				run.Violate("unrelated-routes|"+c.RoutesString()+"|"+q.String(), fmt.Sprintf("outcome changes when unrelated routes are registered\nroutes: %s\nadded (none matches the request or its slash-adjusted form): %v\nrequest: %s\nbefore: %s status=%d loc=%q handler=%s %s\nafter:  %s status=%d loc=%q handler=%s %s",
					c.RoutesString(), names, q, o.got, o.s.Status, o.s.Location, o.s.Seen.Kind, o.s.Seen.Pattern, got2, s2.Status, s2.Location, s2.Seen.Kind, s2.Seen.Pattern), c2)
			}
		})
	}
}

// touches reports whether the single pattern matches the request path or its slash-adjusted form (any method, its own host rule).
func touches(pattern string, q route.Req) bool {
	p := ref.Tokenize(pattern)
	mp := q.MatchPath()
	for _, path := range []string{mp, adjusted(mp)} {
		if path == "" {
			continue
		}
		o := ref.Lookup([]*ref.Pattern{p}, q.Host, path)
		if o.Pattern != "" || o.Unspec {
			return true
		}
	}
	return false
}

// siblings derives routes that split radix nodes around the final slash of registered patterns.
func siblings(r *rand.Rand, c route.Case) []route.RouteSpec {
	var out []route.RouteSpec
	seen := map[string]bool{}
	for _, rs := range c.Routes {
		seen[rs.Method+" "+rs.Pattern] = true
	}
	add := func(m, p string) {
		if !seen[m+" "+p] && len(out) < 6 {
			seen[m+" "+p] = true
			out = append(out, route.RouteSpec{Method: m, Pattern: p})
		}
	}
	for _, rs := range c.Routes {
		if r.IntN(2) == 0 {
			continue
		}
		p := rs.Pattern
		base := strings.TrimSuffix(p, "/")
		if strings.HasSuffix(base, "}") || base == "" || strings.HasSuffix(base, "/") {
			add(rs.Method, base+"/zq/zr")
			continue
		}
		switch r.IntN(5) {
		case 0:
			add(rs.Method, base+"zq")
		case 1:
			add(rs.Method, base+"zq/x")
			add(rs.Method, base+"zq/y")
		case 2:
			add(rs.Method, base+"/zq")
		case 3:
			add(rs.Method, base+"/zq/")
			add(rs.Method, base+"/zr")
		default:
			if len(base) > 2 {
				add(rs.Method, base[:len(base)-1]+"zq")
			}
		}
	}
	return out
}

func probe(run *kit.Run, c route.Case, b *route.Built, q route.Req, sample bool) (route.Obs, route.ServeObs) {
	id := c.RoutesString() + "|" + q.String()
	mp := q.MatchPath()
	unclean := gen.HasEmptySegment(mp) || strings.Contains(mp, "/./") || strings.Contains(mp, "/../") || strings.HasSuffix(mp, "/.") || strings.HasSuffix(mp, "/..")
	got := route.LookupObs(b.F, q)
	want := b.Ref(q)
	rev := route.ReverseObs(b.F, q)
	// (Reverse documents that it reads the empty path as "/": no agreement is owed there)
	if mp != "" && (rev.Pattern != got.Pattern || rev.Tsr != got.Tsr) {
		run.Violate("entry-reverse|"+id, fmt.Sprintf("Reverse disagrees with Lookup\nroutes: %s\nrequest: %s\nLookup: %s\nReverse: %s", c.RoutesString(), q, got, rev), c)
	}
	nontrivial := got.Tsr || want.Tsr
	if !unclean && !want.Unspec {
		// (a)(b)(c): detection, route identity and parameters against the slash-adjusted reference
		class := route.Classify(want, got)
		switch class {
		case "", "wrong-route", "params-differ", "missed-match", "spurious-match":
			// direct-only disagreements are C01's business
		default:
			run.Violate(class+"|"+id, fmt.Sprintf("[%s]\nroutes: %s\nrequest: %s\nreference: %s %v tsr=%t viaHost=%t\nfox:       %s", class, c.RoutesString(), q, want.Pattern, want.Params, want.Tsr, want.ViaHost, got), c)
		}
		switch {
		case want.Tsr && strings.HasSuffix(mp, "/"):
			run.Count("ref_tsr_remove_slash", 1)
		case want.Tsr:
			run.Count("ref_tsr_add_slash", 1)
		case want.Pattern != "":
			run.Count("ref_direct", 1)
		default:
			run.Count("ref_none", 1)
		}
		if want.Tsr && want.ViaHost {
			run.Count("ref_tsr_under_hostname", 1)
		}
	} else if unclean {
		run.Count("unclean_path_probes", 1)
	}
	// (g) self-consistency, no reference involved
	if got.Tsr {
		if got.Pattern == "" {
			run.Violate("self-tsr|"+id, fmt.Sprintf("tsr=true without a route\nroutes: %s\nrequest: %s", c.RoutesString(), q), c)
		} else {
			if msg := route.SelfCheck(q, got); msg != "" {
				run.Violate("self-tsr|"+id, fmt.Sprintf("slash-adjusted answer is not a match of its own pattern: %s\nroutes: %s\nrequest: %s\nfox: %s", msg, c.RoutesString(), q, got), c)
			}
			if !strings.HasSuffix(mp, "/") && !strings.HasSuffix(got.Pattern, "/") {
				run.Violate("self-tsr|"+id, fmt.Sprintf("slash added but the pattern does not end with a literal '/'\nroutes: %s\nrequest: %s\nfox: %s", c.RoutesString(), q, got), c)
			}
			aq := q
			aq.Path = adjusted(q.Path)
			if q.RawPath != "" {
				aq.RawPath = adjusted(q.RawPath)
			}
			if !gen.HasEmptySegment(aq.MatchPath()) {
				direct := route.LookupObs(b.F, aq)
				// When a slash is added, the direct lookup of the adjusted path may legitimately select another route
				// that consumes the added slash inside a catch-all capture: the property only ranks the routes that
				// take it against a literal '/'.
				swallowed := !strings.HasSuffix(mp, "/") && direct.Pattern != "" && !direct.Tsr && strings.HasSuffix(direct.Pattern, "}") &&
					len(direct.Params) > 0 && strings.HasSuffix(direct.Params[len(direct.Params)-1].V, "/")
				if swallowed {
					run.Count("selfcheck_adjusted_slash_swallowed_by_catchall(skipped)", 1)
				} else if direct.Tsr || direct.Pattern != got.Pattern || !route.SameParams(direct.Params, got.Params) {
					run.Violate("self-tsr|"+id, fmt.Sprintf("fox recommends a trailing-slash action to a route its own direct lookup of the adjusted path does not select\nroutes: %s\nrequest: %s\ntsr answer: %s\ndirect lookup of %q: %s",
						c.RoutesString(), q, got, aq.MatchPath(), direct), c)
				}
			}
			if mp == "/" {
				run.Violate("self-tsr|"+id, fmt.Sprintf("trailing-slash opportunity reported for the root path\nroutes: %s\nrequest: %s\nfox: %s", c.RoutesString(), q, got), c)
			}
		}
	}
	// (d)(e) ServeHTTP action table, driven by fox's own lookup answer
	s := b.Serve(q)
	action(run, c, b, q, got, s, id)
	run.Case(c.RoutesString()+"|"+q.String(), nontrivial)
	if sample && run.WantSample() {
		run.Sample(map[string]any{"routes": c.RoutesString(), "request": q.String(), "reference": fmt.Sprintf("%s %v tsr=%t", want.Pattern, want.Params, want.Tsr),
			"fox": got.String(), "status": s.Status, "location": s.Location, "handler": s.Seen.Kind})
	}
	return got, s
}

func action(run *kit.Run, c route.Case, b *route.Built, q route.Req, got route.Obs, s route.ServeObs, id string) {
	fail := func(why string) {
		run.Violate("action|"+id, fmt.Sprintf("%s\nroutes: %s\nrequest: %s\nlookup: %s\nServeHTTP: status=%d location=%q handler=%q pattern=%q params=%v redirect-handler-ran=%t",
			why, c.RoutesString(), q, got, s.Status, s.Location, s.Seen.Kind, s.Seen.Pattern, s.Seen.Params, s.Seen.Redirect), c)
	}
	mp := q.MatchPath()
	switch {
	case got.Pattern != "" && !got.Tsr:
		run.Count("action_direct", 1)
		if s.Seen.Kind != "route" || s.Seen.Pattern != got.Pattern || !route.SameParams(s.Seen.Params, got.Params) || s.Seen.Redirect {
			fail("direct match must be served by its route with the parameters of the match")
		}
	case got.Pattern != "" && got.Tsr:
		mode := b.SlashMode(q.Method, got.Pattern)
		if q.Method == "CONNECT" || q.Path == "/" {
			mode = ""
		}
		switch {
		case mode == "ignore":
			run.Count("action_ignore_served", 1)
			if s.Seen.Kind != "route" || s.Seen.Pattern != got.Pattern || !route.SameParams(s.Seen.Params, got.Params) || s.Seen.Redirect {
				fail("route ignores trailing slashes: it must serve the request with the parameters of the adjusted match")
			}
		case mode == "redirect" && mp == ref.CleanPath(mp):
			run.Count("action_redirect", 1)
			wantCode := 308
			if q.Method == "GET" {
				wantCode = 301
			}
			if !s.Seen.Redirect || s.Seen.Kind == "route" || s.Status != wantCode {
				fail(fmt.Sprintf("route redirects trailing slashes and the path is clean: expected %d from the redirect handler", wantCode))
				return
			}
			rs := s.Seen.RedirSeen
			if rs == nil || !rs.RouteNil || rs.CtxPattern != "" || len(rs.Params) != 0 || rs.Scope != fox.RedirectHandler {
				fail("redirect handler must see no route, no pattern, no parameters and the RedirectHandler scope")
			}
			checkLocation(run, c, q, s, id)
		default:
			if mode == "redirect" {
				run.Count("action_redirect_suppressed_unclean", 1)
			} else {
				run.Count("action_tsr_not_enabled", 1)
			}
			if s.Seen.Kind == "route" || s.Seen.Redirect || (s.Status >= 300 && s.Status < 400) {
				fail("no trailing-slash action may be taken here (option off, CONNECT, root path or unclean path): the request must be treated as unmatched")
			}
		}
	default:
		run.Count("action_unmatched", 1)
		if s.Seen.Kind == "route" || s.Seen.Redirect || (s.Status >= 300 && s.Status < 400) {
			fail("lookup finds nothing: the request must be treated as unmatched")
		}
	}
	// C17 tie-in: a redirect is only ever issued for a path that is its own clean form
	if s.Seen.Redirect && mp != ref.CleanPath(mp) {
		run.Violate("redirect-unclean|"+id, fmt.Sprintf("trailing-slash redirect issued for an unclean path\nroutes: %s\nrequest: %s\nstatus=%d location=%q", c.RoutesString(), q, s.Status, s.Location), c)
	}
}

func checkLocation(run *kit.Run, c route.Case, q route.Req, s route.ServeObs, id string) {
	// the wire form of the path: what the client sent
	wire := q.RawPath
	if wire == "" {
		wire = (&url.URL{Path: q.Path}).EscapedPath()
	}
	suffix := ""
	if q.Query != "" {
		suffix = "?" + q.Query
	}
	base, err := url.Parse("http://example.test" + wire + suffix)
	exp, err2 := url.Parse("http://example.test" + adjusted(wire) + suffix)
	if err != nil || err2 != nil {
		run.Count("location_base_unparsable", 1)
		return
	}
	loc, err := url.Parse(s.Location)
	if err != nil {
		run.Violate("location|"+id, fmt.Sprintf("Location %q does not parse: %v\nroutes: %s\nrequest: %s", s.Location, err, c.RoutesString(), q), c)
		return
	}
	res := base.ResolveReference(loc)
	run.Count("location_resolved", 1)
	// hex digits of percent-escapes are case-insensitive: exact decoded path, escaped path compared modulo case
	if res.Host != exp.Host || res.Scheme != exp.Scheme || res.Path != exp.Path || !strings.EqualFold(res.EscapedPath(), exp.EscapedPath()) || res.RawQuery != exp.RawQuery {
		run.Violate("location|"+id, fmt.Sprintf("Location %q resolves against %q to %q; expected %q\nroutes: %s\nrequest: %s",
			s.Location, base.String(), res.String(), exp.String(), c.RoutesString(), q), c)
	}
}
