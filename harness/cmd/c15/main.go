// C15: handler panics are contained and leave the router usable.
// Fault enumeration over (panic value x response progress at the time of the panic x handler kind) plus panics after
// every step of Updates/View functions. Oracles: ServeHTTP return/panic identity, the event log of the underlying
// writer, the captured slog record (searched for unique secret tokens), follow-up requests and writes, the structural
// fingerprint of the router, and the blocked-goroutine classifier for the writer lock.
package main

import (
	"context"
	"errors"
	"fmt"
	"io"
	"log/slog"
	"net"
	"net/http"
	"net/url"
	"os"
	"runtime"
	"strings"
	"sync"
	"sync/atomic"
	"syscall"
	"time"

	"foxverif/kit"

	"github.com/tigerwill90/fox"
)

const rule = "cases = (panic value in 13 kinds incl. wrapped http.ErrAbortHandler and net.OpError variants) x (response progress: nothing, informational header, final header, 101, partial body, flushed, one chunk streamed through ReadFrom / io.Copy from a source that then panics, one chunk copied through the underlying writer's own ReadFrom from a source that then fails) x (request context live / cancelled / past its deadline, in turn) x (handler kind: route, inner route middleware, route reached by ignoring a trailing slash, route of a router mounted inside a route, no-route, no-method, options) " +
	"x (credential header names in canonical, lower-case, upper-case and mixed capitalisation set directly in the header map, plus ordinary headers); the product is enumerated completely; " +
	"plus panics inside Updates and View functions after every prefix of a base sequence, after every single step and after every ordered pair of the steps that add, empty or remove method roots, and panics raised by middleware constructors during 8 write entry points; distinct by the tuple; non-trivial always"

// capture keeps the records themselves (as an asynchronous or batching slog handler does, through Record.Clone) and
// renders them only when they are read: a record must keep describing its own request after later ones were logged.
type capture struct {
	mu   sync.Mutex
	kept []slog.Record
}

func (c *capture) Enabled(context.Context, slog.Level) bool { return true }
func (c *capture) Handle(_ context.Context, r slog.Record) error {
	c.mu.Lock()
	c.kept = append(c.kept, r.Clone())
	c.mu.Unlock()
	return nil
}

// rendered formats the records kept so far.
func (c *capture) rendered() []string {
	c.mu.Lock()
	defer c.mu.Unlock()
	out := make([]string, 0, len(c.kept))
	for _, r := range c.kept {
		var sb strings.Builder
		sb.WriteString(r.Level.String() + " " + r.Message)
		r.Attrs(func(a slog.Attr) bool {
			sb.WriteString(" | " + a.Key + "=" + a.Value.String())
			return true
		})
		out = append(out, sb.String())
	}
	return out
}
func (c *capture) WithAttrs([]slog.Attr) slog.Handler { return c }
func (c *capture) WithGroup(string) slog.Handler      { return c }

type under struct {
	h   http.Header
	log []string
}

func (u *under) Header() http.Header { return u.h }
func (u *under) WriteHeader(c int)   { u.log = append(u.log, fmt.Sprintf("header %d", c)) }
func (u *under) Write(b []byte) (int, error) {
	u.log = append(u.log, fmt.Sprintf("body %q", b))
	return len(b), nil
}

// FlushError makes the underlying writer a flusher of the error-returning kind (like a real net/http response).
func (u *under) FlushError() error {
	u.log = append(u.log, "flush")
	return nil
}

// underRF is an underlying writer with the io.ReaderFrom fast path (like a real net/http response): it takes the
// source over itself and reports the source's error together with what it accepted.
type underRF struct{ *under }

func (u underRF) ReadFrom(src io.Reader) (int64, error) {
	var n int64
	buf := make([]byte, 64)
	for {
		m, err := src.Read(buf)
		if m > 0 {
			u.log = append(u.log, fmt.Sprintf("readfrom %q", buf[:m]))
			n += int64(m)
		}
		if err == io.EOF {
			return n, nil
		}
		if err != nil {
			return n, err
		}
	}
}

// failingSource delivers "partial" and then fails with an error of its own.
type failingSource struct{ done bool }

func (s *failingSource) Read(b []byte) (int, error) {
	if !s.done {
		s.done = true
		return copy(b, "partial"), nil
	}
	return 0, errors.New("verif: source failed midway")
}

type custom struct{ s string }

type pv struct {
	name   string
	make   func() any
	abort  bool // must be re-raised unchanged
	broken bool // reports a broken connection: nothing at all is sent
}

var values = []pv{
	{"string", func() any { return "boom" }, false, false},
	{"error", func() any { return errors.New("boom") }, false, false},
	{"wrapped error", func() any { return fmt.Errorf("ctx: %w", errors.New("inner")) }, false, false},
	{"int", func() any { return 42 }, false, false},
	{"struct", func() any { return custom{"x"} }, false, false},
	{"pointer", func() any { return &custom{"x"} }, false, false},
	{"nil map write (runtime error)", nil, false, false},
	{"http.ErrAbortHandler", func() any { return http.ErrAbortHandler }, true, false},
	{"wrapped http.ErrAbortHandler", func() any { return fmt.Errorf("wrapped: %w", http.ErrAbortHandler) }, true, false},
	{"net.OpError broken pipe", func() any {
		return &net.OpError{Op: "write", Net: "tcp", Err: &os.SyscallError{Syscall: "write", Err: syscall.EPIPE}}
	}, false, true},
	{"net.OpError connection reset", func() any {
		return &net.OpError{Op: "read", Net: "tcp", Err: &os.SyscallError{Syscall: "read", Err: syscall.ECONNRESET}}
	}, false, true},
	{"net.OpError other", func() any {
		return &net.OpError{Op: "read", Net: "tcp", Err: &os.SyscallError{Syscall: "read", Err: syscall.ETIMEDOUT}}
	}, false, false},
	{"net.OpError wrapping a wrapped syscall broken pipe", func() any {
		return &net.OpError{Op: "write", Net: "tcp", Err: fmt.Errorf("write: %w", &os.SyscallError{Syscall: "write", Err: syscall.EPIPE})}
	}, false, true},
	{"net.OpError nested in net.OpError, connection reset", func() any {
		return &net.OpError{Op: "read", Net: "tcp", Err: &net.OpError{Op: "read", Net: "tcp", Err: &os.SyscallError{Syscall: "read", Err: syscall.ECONNRESET}}}
	}, false, true},
	{"net.OpError without syscall error", func() any { return &net.OpError{Op: "read", Net: "tcp", Err: errors.New("broken pipe")} }, false, false},
}

var progress = []string{"nothing", "hijack-refused", "informational", "header", "header-101", "partial-body", "flushed", "streamed-readfrom", "streamed-iocopy", "failed-fast-copy"}
var kinds = []string{"route", "route-middleware", "route-ignored-slash", "nested-router", "noroute", "nomethod", "options"}

var sensitive = []string{"Authorization", "Proxy-Authorization", "Cookie", "Set-Cookie", "X-CSRF-Token", "X-Vault-Token"}

func variants(name string) []string {
	mixed := []byte(strings.ToLower(name))
	for i := 0; i < len(mixed); i += 2 {
		if mixed[i] >= 'a' && mixed[i] <= 'z' {
			mixed[i] -= 32
		}
	}
	return []string{http.CanonicalHeaderKey(name), name, strings.ToLower(name), strings.ToUpper(name), string(mixed)}
}

type planKey struct{}
type plan struct {
	value    pv
	progress string
	raised   any
}

func doPanic(c fox.Context) {
	p, _ := c.Request().Context().Value(planKey{}).(*plan)
	if p == nil {
		return
	}
	switch p.progress {
	case "hijack-refused":
		// the handler tries to take the connection over, the underlying writer cannot: nothing has been sent
		if _, _, err := c.Writer().Hijack(); err == nil {
			panic("verif: Hijack succeeded on an underlying writer that does not offer it")
		}
	case "informational":
		c.Writer().WriteHeader(103)
	case "header":
		c.Writer().WriteHeader(202)
	case "header-101":
		c.Writer().WriteHeader(101) // switching protocols: a final status although it is in the 1xx class
	case "partial-body":
		c.Writer().WriteHeader(202)
		_, _ = c.Writer().Write([]byte("partial"))
	case "flushed":
		_ = c.Writer().FlushError() // commits the implicit 200 header
	case "streamed-readfrom":
		// the handler streams a source that delivers one chunk and then panics inside Read
		_, _ = c.Writer().ReadFrom(&panickingSource{plan: p})
	case "streamed-iocopy":
		_, _ = io.Copy(c.Writer(), &panickingSource{plan: p})
	case "failed-fast-copy":
		// the first thing the handler does is to stream a source that fails after one chunk, onto an underlying writer
		// that has the io.ReaderFrom fast path: the chunk went out, the response is started
		_, _ = io.Copy(c.Writer(), &failingSource{})
	}
	if p.value.make == nil {
		var m map[string]int
		m["x"] = 1
	}
	p.raised = p.value.make()
	panic(p.raised)
}

// disabled is a log handler that rejects every record (slog.DiscardHandler, or a level above ERROR).
type disabled struct{}

func (disabled) Enabled(context.Context, slog.Level) bool  { return false }
func (disabled) Handle(context.Context, slog.Record) error { return nil }
func (disabled) WithAttrs([]slog.Attr) slog.Handler        { return disabled{} }
func (disabled) WithGroup(string) slog.Handler             { return disabled{} }

// silentLogger: whether the diagnostic record is wanted or not, the client gets its 500 (and nothing else changes):
// Recovery built on a handler that rejects every record.
func silentLogger(run *kit.Run) {
	f, err := fox.New(fox.WithMiddleware(fox.CustomRecoveryWithLogHandler(disabled{}, fox.DefaultHandleRecovery)),
		fox.WithNoRouteHandler(func(c fox.Context) { doPanic(c); fox.DefaultNotFoundHandler(c) }))
	if err != nil {
		run.Inconclusive("fox.New: %v", err)
		return
	}
	f.MustHandle("GET", "/p/{id}", func(c fox.Context) { doPanic(c) })
	for _, v := range values {
		for _, pr := range []string{"nothing", "informational", "header", "partial-body"} {
			for _, path := range []string{"/p/1", "/none"} {
				id := fmt.Sprintf("silent-logger|%s|%s|%s", v.name, pr, path)
				run.Case(id, true)
				pl := &plan{value: v, progress: pr}
				req := &http.Request{Method: "GET", URL: &url.URL{Path: path}, Header: http.Header{}, Proto: "HTTP/1.1", ProtoMajor: 1, ProtoMinor: 1, RemoteAddr: "192.0.2.1:1"}
				req = req.WithContext(context.WithValue(context.Background(), planKey{}, pl))
				u := &under{h: http.Header{}}
				var escaped any
				func() {
					defer func() { escaped = recover() }()
					f.ServeHTTP(u, req)
				}()
				log := strings.Join(u.log, "; ")
				switch {
				case v.abort:
					if escaped == nil {
						run.Violate(id+"|abort", "http.ErrAbortHandler did not propagate (Recovery with a log handler that rejects every record)", nil)
					}
				case escaped != nil:
					run.Violate(id+"|escaped", fmt.Sprintf("a panic escaped ServeHTTP (Recovery with a log handler that rejects every record): %v", escaped), nil)
				case v.broken || pr == "header" || pr == "partial-body":
					if strings.Contains(log, "header 500") {
						run.Violate(id+"|response", fmt.Sprintf("nothing more may be sent here, the underlying writer saw %q", log), nil)
					}
				default:
					if strings.Count(log, "header 500") != 1 {
						run.Violate(id+"|response", fmt.Sprintf("nothing final had been written: the client must get a single 500 whether or not the log handler wants the record; the underlying writer saw %q", log), nil)
					}
				}
			}
		}
	}
}

// panickingSource delivers "partial" on the first Read and raises the plan's panic value on the second.
type panickingSource struct {
	plan *plan
	done bool
}

func (s *panickingSource) Read(b []byte) (int, error) {
	if !s.done {
		s.done = true
		return copy(b, "partial"), nil
	}
	if s.plan.value.make == nil {
		var m map[string]int
		m["x"] = 1
	}
	s.plan.raised = s.plan.value.make()
	panic(s.plan.raised)
}

func build(cap *capture) *fox.Router {
	f, err := fox.New(
		fox.WithMiddleware(fox.CustomRecoveryWithLogHandler(cap, fox.DefaultHandleRecovery)),
		fox.WithNoRouteHandler(func(c fox.Context) { doPanic(c); fox.DefaultNotFoundHandler(c) }),
		fox.WithNoMethodHandler(func(c fox.Context) { doPanic(c); fox.DefaultMethodNotAllowedHandler(c) }),
		fox.WithOptionsHandler(func(c fox.Context) { doPanic(c); fox.DefaultOptionsHandler(c) }),
	)
	if err != nil {
		panic(err)
	}
	ok := func(c fox.Context) { _ = c.String(200, "ok") }
	f.MustHandle("GET", "/p/{id}/x/*{rest}", func(c fox.Context) { doPanic(c); ok(c) })
	f.MustHandle("GET", "/m/{id}", ok, fox.WithMiddleware(func(next fox.HandlerFunc) fox.HandlerFunc {
		return func(c fox.Context) { doPanic(c); next(c) }
	}))
	f.MustHandle("GET", "/ig/{id}/", func(c fox.Context) { doPanic(c); ok(c) }, fox.WithIgnoreTrailingSlash(true))
	f.MustHandle("POST", "/only-post", ok)
	f.MustHandle("GET", "/fine/{a}", ok)
	// a second router mounted inside a route of the first (it gets the outer context's writer): the inner handler starts
	// the response and panics, Recovery sits on the outer router only
	inner, err := fox.New()
	if err != nil {
		panic(err)
	}
	inner.MustHandle("GET", "/nested/{id}/x/*{rest}", func(c fox.Context) { doPanic(c); ok(c) })
	f.MustHandle("GET", "/nested/{id}/x/*{rest}", func(c fox.Context) { inner.ServeHTTP(c.Writer(), c.Request()) })
	return f
}

func main() {
	run := kit.Start("C15", rule)
	defer run.Finish()
	cap := &capture{}
	f := build(cap)
	before := fox.VerifFingerprint(f.Iter())
	n := 0
	for _, v := range values {
		for _, pr := range progress {
			for _, k := range kinds {
				for hi, hname := range sensitive {
					for vi, hv := range variants(hname) {
						// the full header-variant product only for the first two panic values, one variant otherwise
						// (the thorough tier enumerates the whole product)
						if !run.Thorough() && v.name != "string" && v.name != "error" && (hi+vi+n)%7 != 0 {
							continue
						}
						n++
						one(run, f, cap, v, pr, k, hv, fmt.Sprintf("S3CR3T-%06d", n), before)
					}
				}
			}
		}
	}
	silentLogger(run)
	txnPanics(run)
	writePanics(run)
	concurrentPanics(run)
	run.SetExtra("fault_enumeration", fmt.Sprintf("%d panic values x %d progress states x %d handler kinds, with every credential header in 5 capitalisations for the string and error values: enumerated completely (%d executions)", len(values), len(progress), len(kinds), n))
}

var ctxTurn int

func one(run *kit.Run, f *fox.Router, cap *capture, v pv, pr, kind, hname, secret, before string) {
	id := fmt.Sprintf("%s|%s|%s|%s", v.name, pr, kind, hname)
	rep := map[string]string{"panic_value": v.name, "progress": pr, "handler": kind, "header": hname}
	run.Case(id, true)
	before = fox.VerifFingerprint(f.Iter())
	method, path := "GET", "/p/7/x/a/b"
	wantRoute, wantParams := "/p/{id}/x/*{rest}", []string{"id=7", "rest=a/b"}
	switch kind {
	case "route-middleware":
		path, wantRoute, wantParams = "/m/9", "/m/{id}", []string{"id=9"}
	case "route-ignored-slash":
		path, wantRoute, wantParams = "/ig/5", "/ig/{id}/", []string{"id=5"}
	case "nested-router":
		path, wantRoute, wantParams = "/nested/7/x/a/b", "/nested/{id}/x/*{rest}", []string{"id=7", "rest=a/b"}
	case "noroute":
		path, wantRoute, wantParams = "/nothing/here", "NoRouteHandler", nil
	case "nomethod":
		path, wantRoute, wantParams = "/only-post", "NoMethodHandler", nil
	case "options":
		method, path, wantRoute, wantParams = "OPTIONS", "/only-post", "OptionsHandler", nil
	}
	pl := &plan{value: v, progress: pr}
	req := &http.Request{Method: method, Host: "example.test", URL: &url.URL{Path: path, RawQuery: "q=1"}, Proto: "HTTP/1.1", ProtoMajor: 1, ProtoMinor: 1, RemoteAddr: "192.0.2.1:1",
		Header: http.Header{"X-Ordinary": {"plain-value"}, "Accept": {"*/*"}}}
	req.Header[hname] = []string{"Bearer " + secret}
	// the request context is live, already cancelled (client gone away, a timeout middleware fired) or past its
	// deadline, in turn: what the client is owed depends on the panic value and on the response progress only
	base, ctxState := context.Background(), "live"
	switch ctxTurn++; ctxTurn % 3 {
	case 1:
		cctx, cancel := context.WithCancel(base)
		cancel()
		base, ctxState = cctx, "cancelled"
	case 2:
		dctx, cancel := context.WithDeadline(base, time.Unix(1, 0))
		defer cancel()
		base, ctxState = dctx, "deadline-exceeded"
	}
	rep["request_context"] = ctxState
	req = req.WithContext(context.WithValue(base, planKey{}, pl))
	u := &under{h: http.Header{}}
	cap.mu.Lock()
	cap.kept = cap.kept[:0]
	cap.mu.Unlock()
	var escaped any
	func() {
		defer func() { escaped = recover() }()
		if pr == "failed-fast-copy" {
			f.ServeHTTP(underRF{u}, req)
			return
		}
		f.ServeHTTP(u, req)
	}()
	fail := func(class, format string, a ...any) {
		run.Violate(class+"|"+id, fmt.Sprintf("[panic=%s progress=%s handler=%s header=%s request-context=%s] ", v.name, pr, kind, hname, ctxState)+fmt.Sprintf(format, a...), rep)
	}
	log := strings.Join(u.log, "; ")
	// containment
	if v.abort {
		if escaped == nil || escaped != pl.raised {
			fail("abort-not-reraised", "http.ErrAbortHandler must be re-raised unchanged: ServeHTTP recovered value %v (%T), the handler raised %v (%T)", escaped, escaped, pl.raised, pl.raised)
		}
	} else if escaped != nil {
		fail("escaped", "a panic escaped ServeHTTP: %v", escaped)
	}
	// client-visible result
	sent := map[string]string{"nothing": "", "hijack-refused": "", "informational": "header 103", "header": "header 202", "header-101": "header 101", "partial-body": `header 202; body "partial"`, "flushed": "header 200; flush", "streamed-readfrom": `header 200; body "partial"`, "streamed-iocopy": `header 200; body "partial"`, "failed-fast-copy": `readfrom "partial"`}[pr]
	switch {
	case v.abort:
		if log != sent {
			fail("response", "after re-raising the abort the response must be left as the handler left it (%q), the underlying writer saw %q", sent, log)
		}
	case pr == "header" || pr == "header-101" || pr == "partial-body" || pr == "flushed" || pr == "streamed-readfrom" || pr == "streamed-iocopy" || pr == "failed-fast-copy":
		if log != sent {
			fail("response", "the response had been started (%q) and must be left untouched, the underlying writer saw %q", sent, log)
		}
	case v.broken:
		if log != sent {
			fail("response", "the panic value reports a broken connection: nothing at all may be sent, the underlying writer saw %q", log)
		}
	default:
		rest := strings.TrimPrefix(strings.TrimPrefix(log, sent), "; ")
		if !strings.HasPrefix(rest, "header 500") || strings.Count(log, "header 5") != 1 {
			fail("response", "nothing final had been written: the client must get a single 500, the underlying writer saw %q", log)
		}
	}
	// diagnostic record
	cap.mu.Lock()
	cap.mu.Unlock()
	recs := cap.rendered()
	cap.mu.Lock()
	cap.mu.Unlock()
	if v.abort {
		if len(recs) != 0 {
			fail("log", "an aborted handler must not be logged as a recovered panic")
		}
	} else {
		if len(recs) != 1 {
			fail("log", "expected exactly one diagnostic record, got %d", len(recs))
		} else {
			rec := recs[0]
			if strings.Contains(rec, secret) {
				fail("credential-logged", "the diagnostic record contains the value of credential header %q", hname)
			}
			if !strings.Contains(rec, "route="+wantRoute) {
				fail("log", "the diagnostic record does not name the route %q: %s", wantRoute, head(rec))
			}
			for _, p := range wantParams {
				if !strings.Contains(rec, p) {
					fail("log", "the diagnostic record lacks parameter %s: %s", p, head(rec))
				}
			}
			if !strings.Contains(rec, method+" "+path+"?q=1 HTTP/1.1") {
				fail("log", "the diagnostic record lacks the request line: %s", head(rec))
			}
			if !strings.Contains(rec, "plain-value") {
				fail("log", "ordinary header values should be part of the request dump: %s", head(rec))
			}
		}
	}
	// router still usable
	u2 := &under{h: http.Header{}}
	req2 := &http.Request{Method: "GET", URL: &url.URL{Path: "/fine/1"}, Header: http.Header{}, Proto: "HTTP/1.1", ProtoMajor: 1, ProtoMinor: 1}
	func() {
		defer func() {
			if p := recover(); p != nil {
				fail("unusable", "a follow-up request panicked: %v", p)
			}
		}()
		f.ServeHTTP(u2, req2)
	}()
	if got := strings.Join(u2.log, "; "); got != `header 200; body "ok"` {
		fail("unusable", "a follow-up request was not served normally: %q", got)
	}
	if fox.VerifFingerprint(f.Iter()) != before {
		fail("unusable", "the routing tree changed after a handler panic")
	}
	if !kit.Completes(20*time.Second, func() {
		_, _ = f.Update("GET", "/fine/{a}", func(c fox.Context) { _ = c.String(200, "ok") })
	}) {
		if g := kit.BlockedOnMutex(kit.AllStacks(), "txnWith", "(*Router).Update"); g != "" {
			fail("lock-held", "a write after the handler panic blocks on the router mutex\n%s", kit.TrimStack(g))
		} else {
			run.Inconclusive("write after panic did not finish within the watchdog (%s)", id)
		}
	}
	if run.WantSample() {
		run.Sample(map[string]any{"panic_value": v.name, "progress": pr, "handler": kind, "credential_header": hname, "underlying_writer_saw": log, "records": len(recs)})
	}
}

func head(s string) string {
	s = strings.ReplaceAll(s, "\r\n", `\r\n`)
	s = strings.ReplaceAll(s, "\n", `\n`)
	if len(s) > 500 {
		return s[:500] + "…"
	}
	return s
}

// writePanics: user code that fox runs while it holds the writer lock (middleware constructors given as route
// options) may panic too: the panic reaches the caller, nothing changes and the lock is released, for every one-shot
// write entry point and for writes inside managed transactions.
func writePanics(run *kit.Run) {
	f, _ := fox.New()
	h := func(fox.Context) {}
	for _, p := range []string{"/a", "/a/{b}", "/c/*{d}"} {
		f.MustHandle("GET", p, h)
	}
	entries := []struct {
		name string
		do   func(opt fox.RouteOption)
	}{
		{"Router.Handle", func(o fox.RouteOption) { _, _ = f.Handle("GET", "/w/new", h, o) }},
		{"Router.Update", func(o fox.RouteOption) { _, _ = f.Update("GET", "/a", h, o) }},
		{"Router.Update (unknown route)", func(o fox.RouteOption) { _, _ = f.Update("GET", "/w/none", h, o) }},
		{"Router.NewRoute+HandleRoute", func(o fox.RouteOption) {
			if rte, err := f.NewRoute("/w/new2", h, o); err == nil {
				_ = f.HandleRoute("GET", rte)
			}
		}},
		{"Router.NewRoute+UpdateRoute", func(o fox.RouteOption) {
			if rte, err := f.NewRoute("/a/{b}", h, o); err == nil {
				_ = f.UpdateRoute("GET", rte)
			}
		}},
		{"Updates: Txn.Handle", func(o fox.RouteOption) {
			_ = f.Updates(func(t *fox.Txn) error { _, err := t.Handle("GET", "/w/new3", h, o); return err })
		}},
		{"Updates: Txn.Delete then Txn.Update", func(o fox.RouteOption) {
			_ = f.Updates(func(t *fox.Txn) error {
				_, _ = t.Delete("GET", "/c/*{d}")
				_, err := t.Update("GET", "/a", h, o)
				return err
			})
		}},
		{"Txn(true) with deferred Abort: Txn.Handle", func(o fox.RouteOption) {
			t := f.Txn(true)
			defer t.Abort()
			_, _ = t.Handle("GET", "/w/new4", h, o)
			t.Commit()
		}},
	}
	for _, e := range entries {
		for _, v := range values {
			if v.make == nil {
				continue
			}
			id := fmt.Sprintf("write|%s|%s", e.name, v.name)
			run.Case(id, true)
			before := fox.VerifFingerprint(f.Iter())
			raised := v.make()
			opt := fox.WithMiddleware(func(next fox.HandlerFunc) fox.HandlerFunc { panic(raised) })
			var escaped any
			done := kit.Completes(20*time.Second, func() {
				defer func() { escaped = recover() }()
				e.do(opt)
			})
			if !done {
				run.Inconclusive("write entry point %s did not return within the watchdog", e.name)
				return
			}
			if escaped != raised {
				run.Violate("write-panic-lost|"+id, fmt.Sprintf("a panic raised by a middleware constructor during %s (value %s) reached the caller as %v instead of the value raised", e.name, v.name, escaped), nil)
			}
			if fox.VerifFingerprint(f.Iter()) != before {
				run.Violate("write-panic-commits|"+id, fmt.Sprintf("a panic during %s left visible changes", e.name), nil)
			}
			if !kit.Completes(20*time.Second, func() { _, _ = f.Update("GET", "/a", h) }) {
				if g := kit.BlockedOnMutex(kit.AllStacks(), "github.com/tigerwill90/fox."); g != "" {
					run.Violate("write-panic-lock|"+id, fmt.Sprintf("the writer lock is still held after a panic raised by a middleware constructor during %s\n%s", e.name, kit.TrimStack(g)), nil)
				} else {
					run.Inconclusive("write after a panicking write did not finish within the watchdog (%s)", id)
				}
				return
			}
		}
	}
}

// txnPanics: a panic after every step of an Updates or View function propagates, changes nothing and releases the lock.
// Programs: every prefix of a base sequence, every step alone (so that each kind of write is also the FIRST write of
// its transaction), and every ordered pair of the steps that add, empty or remove method roots.
func txnPanics(run *kit.Run) {
	f, _ := fox.New()
	h := func(fox.Context) {}
	for _, p := range []string{"/a", "/a/{b}", "/c/*{d}", "h.com/x", "/foo/bar", "/foo/baz/{id}", "/s/b", "/s/c", "/s/d"} {
		f.MustHandle("GET", p, h)
	}
	// custom verbs, registered in this order (their roots follow the four common ones)
	f.MustHandle("TRACE", "/t", h)
	f.MustHandle("FOO", "/x", h)
	f.MustHandle("PATCH", "/z", h)
	f.MustHandle("PATCH", "/z/{q}", h)
	type step struct {
		name string
		do   func(t *fox.Txn)
	}
	base := []step{
		// a pattern that is exactly an existing branching node, then writes below it and next to existing siblings
		{"Handle /foo/ba", func(t *fox.Txn) { _, _ = t.Handle("GET", "/foo/ba", h) }},
		{"Update /foo/bar", func(t *fox.Txn) { _, _ = t.Update("GET", "/foo/bar", h) }},
		{"Handle /foo/baz/{id}/x", func(t *fox.Txn) { _, _ = t.Handle("GET", "/foo/baz/{id}/x", h) }},
		{"Handle /s/a", func(t *fox.Txn) { _, _ = t.Handle("GET", "/s/a", h) }},
		{"Handle /new/{x}", func(t *fox.Txn) { _, _ = t.Handle("GET", "/new/{x}", h) }},
		{"Update /a", func(t *fox.Txn) { _, _ = t.Update("GET", "/a", h) }},
		{"Delete /c/*{d}", func(t *fox.Txn) { _, _ = t.Delete("GET", "/c/*{d}") }},
		{"Iter", func(t *fox.Txn) { _ = t.Iter() }},
		{"Snapshot", func(t *fox.Txn) { _ = t.Snapshot() }},
		{"Truncate GET", func(t *fox.Txn) { _ = t.Truncate("GET") }},
	}
	roots := []step{
		{"Truncate TRACE,FOO", func(t *fox.Txn) { _ = t.Truncate("TRACE", "FOO") }},
		{"Truncate FOO", func(t *fox.Txn) { _ = t.Truncate("FOO") }},
		{"Truncate PATCH,GET", func(t *fox.Txn) { _ = t.Truncate("PATCH", "GET") }},
		{"Truncate all", func(t *fox.Txn) { _ = t.Truncate() }},
		{"Delete TRACE /t (its last route)", func(t *fox.Txn) { _, _ = t.Delete("TRACE", "/t") }},
		{"Delete FOO /x (its last route)", func(t *fox.Txn) { _, _ = t.Delete("FOO", "/x") }},
		{"Handle BAR /new (new verb)", func(t *fox.Txn) { _, _ = t.Handle("BAR", "/new", h) }},
		{"Handle PATCH /z/new", func(t *fox.Txn) { _, _ = t.Handle("PATCH", "/z/new", h) }},
		{"Update PATCH /z", func(t *fox.Txn) { _, _ = t.Update("PATCH", "/z", h) }},
		{"Handle PUT /first (first route of a common verb)", func(t *fox.Txn) { _, _ = t.Handle("PUT", "/first", h) }},
	}
	type program struct {
		name  string
		steps []step
	}
	var programs []program
	for k := 0; k <= len(base); k++ {
		programs = append(programs, program{fmt.Sprintf("first %d base steps", k), base[:k]})
	}
	for _, s := range append(append([]step(nil), base...), roots...) {
		programs = append(programs, program{"only: " + s.name, []step{s}})
	}
	for _, a := range roots {
		for _, b := range roots {
			if a.name != b.name {
				programs = append(programs, program{a.name + "; " + b.name, []step{a, b}})
			}
		}
	}
	probe := func() (fp string, panicked any) {
		defer func() { panicked = recover() }()
		fp = fox.VerifFingerprint(f.Iter())
		// every method still answers requests, 404/405/OPTIONS scans included
		for _, m := range []string{"GET", "POST", "TRACE", "FOO", "PATCH", "BAR", "OPTIONS"} {
			for _, p := range []string{"/a", "/t", "/x", "/z", "/z/1", "/nope"} {
				f.ServeHTTP(&under{h: http.Header{}}, &http.Request{Method: m, URL: &url.URL{Path: p}, Header: http.Header{}, Proto: "HTTP/1.1", ProtoMajor: 1, ProtoMinor: 1})
			}
		}
		for range f.Iter().Methods() {
		}
		return fp, nil
	}
	for _, managed := range []string{"Updates", "View"} {
		for pi, prog := range programs {
			for vi, v := range values {
				if v.make == nil || (pi > len(base) && vi > 1 && !run.Thorough()) {
					continue // every value for the prefixes, two values for the larger families
				}
				id := fmt.Sprintf("txn|%s|%s|%s", managed, prog.name, v.name)
				run.Case(id, true)
				before, p0 := probe()
				if p0 != nil {
					run.Violate("txn-panic-unusable|"+id, fmt.Sprintf("before %s the router panics on reads: %v", id, p0), nil)
					return
				}
				raised := v.make()
				var escaped any
				func() {
					defer func() { escaped = recover() }()
					fn := func(t *fox.Txn) error {
						for _, s := range prog.steps {
							s.do(t)
						}
						panic(raised)
					}
					if managed == "Updates" {
						_ = f.Updates(fn)
					} else {
						_ = f.View(fn)
					}
				}()
				if escaped != raised {
					run.Violate("txn-panic-lost|"+id, fmt.Sprintf("a panic inside %s (program: %s; value %s) reached the caller as %v instead of the value raised", managed, prog.name, v.name, escaped), nil)
				}
				after, p1 := probe()
				if p1 != nil {
					run.Violate("txn-panic-unusable|"+id, fmt.Sprintf("after a panic inside %s (program: %s) the router panics when it is read or serves requests: %v", managed, prog.name, p1), nil)
					return
				}
				if after != before {
					run.Violate("txn-panic-commits|"+id, fmt.Sprintf("a panic inside %s (program: %s) left visible changes", managed, prog.name), nil)
				}
				if !kit.Completes(20*time.Second, func() { _, _ = f.Update("GET", "/a", h) }) {
					if g := kit.BlockedOnMutex(kit.AllStacks(), "github.com/tigerwill90/fox."); g != "" {
						run.Violate("txn-panic-lock|"+id, fmt.Sprintf("the writer lock is still held after a panic inside %s (program: %s)\n%s", managed, prog.name, kit.TrimStack(g)), nil)
					} else {
						run.Inconclusive("write after txn panic did not finish within the watchdog (%s)", id)
					}
					return
				}
			}
		}
	}
	run.Count("txn_panic_programs", int64(len(programs)))
}

// concurrentPanics: containment is per request. Many goroutines panic at the same time, each with its own value, path,
// parameters, ordinary header and credential; every request gets exactly one 500 of its own and exactly one diagnostic
// record that names its own route, parameters, request line and ordinary header, and no credential of anybody.
func concurrentPanics(run *kit.Run) {
	// first strictly one after the other (records are only read at the end: each must still describe its own
	// request), then from many goroutines at once
	panicsFrom(run, 1)
	panicsFrom(run, 4*runtime.GOMAXPROCS(0))
}

func panicsFrom(run *kit.Run, workers int) {
	cap := &capture{}
	f := build(cap)
	per := run.Pick(100, 2000)
	var wg sync.WaitGroup
	var bad atomic.Pointer[string]
	note := func(format string, a ...any) {
		m := fmt.Sprintf(format, a...)
		bad.CompareAndSwap(nil, &m)
	}
	for g := 0; g < workers; g++ {
		wg.Add(1)
		go func(g int) {
			defer wg.Done()
			for i := 0; i < per; i++ {
				id := g*per + i
				v := pv{name: "string", make: func() any { return fmt.Sprintf("boom-%d-", id) }}
				pl := &plan{value: v, progress: "nothing"}
				req := &http.Request{Method: "GET", URL: &url.URL{Path: fmt.Sprintf("/p/id%d/x/rest%d", id, id), RawQuery: "q=1"},
					Header: http.Header{"Authorization": {fmt.Sprintf("secret-%d-", id)}, "X-Plain": {fmt.Sprintf("plain-%d-", id)}}, Proto: "HTTP/1.1", ProtoMajor: 1, ProtoMinor: 1, RemoteAddr: "192.0.2.1:1"}
				req = req.WithContext(context.WithValue(context.Background(), planKey{}, pl))
				u := &under{h: http.Header{}}
				func() {
					defer func() {
						if p := recover(); p != nil {
							note("request %d: a panic escaped ServeHTTP under concurrency: %v", id, p)
						}
					}()
					f.ServeHTTP(u, req)
				}()
				if got := strings.Join(u.log, "; "); !strings.HasPrefix(got, "header 500") || strings.Count(got, "header") != 1 {
					note("request %d: the client must get a single 500, the underlying writer saw %q", id, got)
				}
			}
		}(g)
	}
	wg.Wait()
	total := workers * per
	seen := make(map[int]int, total)
	for _, rec := range cap.rendered() {
		k := strings.Index(rec, "boom-")
		if k < 0 {
			note("a diagnostic record names no panic value: %s", head(rec))
			continue
		}
		var id int
		fmt.Sscanf(rec[k:], "boom-%d-", &id)
		seen[id]++
		if strings.Contains(rec, "secret-") {
			note("the record of request %d contains a credential value: %s", id, head(rec))
		}
		for _, want := range []string{fmt.Sprintf("GET /p/id%d/x/rest%d?q=1 HTTP/1.1", id, id), fmt.Sprintf("plain-%d-", id), "route=/p/{id}/x/*{rest}", fmt.Sprintf("id=id%d ", id), fmt.Sprintf("rest=rest%d]", id)} {
			if !strings.Contains(rec, want) {
				note("the record of request %d (with %d requests in flight) lacks %q - it describes another request: %s", id, workers, want, head(rec))
			}
		}
	}
	for id := 0; id < total; id++ {
		if seen[id] != 1 {
			note("request %d produced %d diagnostic records", id, seen[id])
			break
		}
	}
	if m := bad.Load(); m != nil {
		run.Violate(fmt.Sprintf("panics-from-%d-goroutines", workers), *m, nil)
	}
	run.Case(fmt.Sprintf("panics-from-%d-goroutines", workers), true)
	run.Eval(int64(total))
	run.Count("concurrent_panicking_requests", int64(total))
}
