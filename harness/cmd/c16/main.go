// C16: routing a matching request allocates nothing.
// Oracle: testing.AllocsPerRun around ServeHTTP after warm-up, with an allocation-free handler and writer, GC
// disabled during measurement, the request object reused; routes and requests from the trie-growing generator.
// Built without the race detector and without coverage instrumentation (both allocate).
package main

import (
	"fmt"
	"net/http"
	"net/url"
	"runtime"
	"runtime/debug"
	"sort"
	"strings"
	"testing"

	"foxverif/gen"
	"foxverif/kit"
	"foxverif/route"

	"github.com/tigerwill90/fox"
)

const rule = "cases = (trie-grown route set incl. deep backtracking, infix catch-alls, hostnames with and without port, 44 spellings of Host incl. IPv6 literals and malformed ones, many parameters, fan-out above 50, ignore-trailing-slash routes) x requests that the router serves " +
	"(direct or ignored trailing slash); each measured with testing.AllocsPerRun(100) after warm-up, interleaved with the previous request, and again on a router of its own (other registration order, nothing else served, a quarter with a handler using CloneWith+Close) plus Lookup+Close; distinct by (route set, request); non-trivial when the matched pattern has a wildcard or a hostname or the match is slash-adjusted"

type nullW struct{ h http.Header }

func (w *nullW) Header() http.Header         { return w.h }
func (w *nullW) Write(b []byte) (int, error) { return len(b), nil }
func (w *nullW) WriteHeader(int)             {}

func main() {
	run := kit.Start("C16", rule)
	defer run.Finish()
	debug.SetGCPercent(-1)
	sets := run.Pick(1200, 60000)
	// measurement is per goroutine (AllocsPerRun pins GOMAXPROCS to 1), so cases run sequentially
	r := run.Rand(1)
	w := &nullW{h: http.Header{}}
	measured := 0
	for s := 0; s < sets; s++ {
		if s%50 == 49 {
			// the collector is off during measurements; the routers of finished sets are released here, between sets
			runtime.GC()
		}
		pf := gen.DefaultProfile
		switch r.IntN(6) {
		case 0:
			pf = gen.HostProfile
		case 1:
			pf = gen.PathProfile
			pf.MaxSeg = 8
		}
		if r.IntN(25) == 0 {
			pf.FanOut = true
		}
		c := route.GenCase(r, route.GenOpts{Profile: pf, Probes: 10})
		if len(c.Routes) == 0 {
			continue
		}
		ignore := r.IntN(3) == 0
		var opts []fox.GlobalOption
		if ignore {
			opts = append(opts, fox.WithIgnoreTrailingSlash(true))
		}
		f, err := fox.New(opts...)
		if err != nil {
			run.Inconclusive("fox.New: %v", err)
			return
		}
		hit := 0
		h := func(c fox.Context) { hit++ }
		for _, rs := range c.Routes {
			_, _ = f.Handle(rs.Method, rs.Pattern, h)
		}
		// non-canonical variants: a '.' or '..' element captured by a wildcard is an ordinary value for the matcher;
		// each segment in turn is replaced (the variants that no longer match are dropped by the Lookup below)
		var extra []route.Req
		for _, q := range c.Reqs {
			segs := strings.Split(q.Path, "/")
			for k := 1; k < len(segs); k++ {
				if segs[k] == "" || r.IntN(3) != 0 {
					continue
				}
				t := q
				cp := append([]string(nil), segs...)
				cp[k] = []string{".", "..", ".x"}[r.IntN(3)]
				t.Path = strings.Join(cp, "/")
				extra = append(extra, t)
			}
		}
		// the wire forms a client may send for the same resources: needless or reserved percent-escapes make net/url
		// set URL.RawPath, which the router then routes on (kept when they still match, like the variants above)
		for _, q := range c.Reqs {
			if r.IntN(2) == 0 {
				if t, ok := route.Escaped(r, q); ok {
					extra = append(extra, t)
				}
			}
		}
		c.Reqs = append(c.Reqs, extra...)
		var prev *http.Request
		for _, q := range c.Reqs {
			if gen.HasEmptySegment(q.Path) {
				continue
			}
			// hosts are restricted to well-formed host[:port]
			if strings.ContainsAny(q.Host, "[]{*") || strings.Count(q.Host, ":") > 0 && !strings.HasSuffix(q.Host, ":8080") {
				continue
			}
			rte, cc, tsr := f.Lookup(nil, q.HTTP())
			if rte == nil {
				continue
			}
			cc.Close()
			if tsr && !ignore {
				continue
			}
			req := &http.Request{Method: q.Method, Host: q.Host, URL: &url.URL{Path: q.Path, RawPath: q.RawPath}, Header: http.Header{}}
			for i := 0; i < 5; i++ {
				f.ServeHTTP(w, req)
			}
			hit = 0
			allocs := testing.AllocsPerRun(100, func() { f.ServeHTTP(w, req) })
			measured++
			nontrivial := strings.Contains(rte.Pattern(), "{") || !strings.HasPrefix(rte.Pattern(), "/") || tsr
			run.Case(c.RoutesString()+"|"+q.String(), nontrivial)
			switch {
			case tsr:
				run.Count("measured_ignored_trailing_slash", 1)
			case !strings.HasPrefix(rte.Pattern(), "/"):
				run.Count("measured_hostname", 1)
			case strings.Contains(rte.Pattern(), "*{"):
				run.Count("measured_catchall", 1)
			case strings.Contains(rte.Pattern(), "{"):
				run.Count("measured_param", 1)
			default:
				run.Count("measured_static", 1)
			}
			if hit == 0 {
				run.Violate("not-served|"+c.RoutesString()+"|"+q.String(), "Lookup finds a route but ServeHTTP did not run the handler", c)
				continue
			}
			if allocs > 0 {
				run.Violate("allocates|"+c.RoutesString()+"|"+q.String(), fmt.Sprintf("routing a matching request allocates %.2f objects per request\nroutes: %s\nrequest: %s\nmatched: %s (slash-adjusted=%t)", allocs, c.RoutesString(), q, rte.Pattern(), tsr), c)
			}
			if run.WantSample() {
				run.Sample(map[string]any{"routes": c.RoutesString(), "request": q.String(), "matched": rte.Pattern(), "allocs_per_run": allocs})
			}
			// the same request on a router of its own, filled in another order and serving nothing else: whatever a pooled
			// context needs for this request must be kept by this request alone (no other request warms the pool up)
			{
				order := append([]route.RouteSpec(nil), c.Routes...)
				switch measured % 3 {
				case 0:
					for i, j := 0, len(order)-1; i < j; i, j = i+1, j-1 {
						order[i], order[j] = order[j], order[i]
					}
				case 1:
					sort.SliceStable(order, func(i, j int) bool { return len(order[i].Pattern) > len(order[j].Pattern) })
				}
				f2, _ := fox.New(opts...)
				cloning := measured%4 == 0
				h2 := h
				if cloning {
					// a handler that takes and releases a copy of its context, as wrapping middleware does
					h2 = func(c fox.Context) {
						hit++
						cc := c.CloneWith(c.Writer(), c.Request())
						cc.Close()
					}
				}
				// one commit per route, or all in one transaction
				if measured%2 == 0 {
					for _, rs := range order {
						_, _ = f2.Handle(rs.Method, rs.Pattern, h2)
					}
				} else {
					_ = f2.Updates(func(t *fox.Txn) error {
						for _, rs := range order {
							_, _ = t.Handle(rs.Method, rs.Pattern, h2)
						}
						return nil
					})
				}
				if measured%8 == 4 {
					// the routes of another verb come and go (a committed partial Truncate): what is left is still served
					// without allocating
					_, _ = f2.Handle("POST", "/zz-post/{a}/{b}", h2)
					_ = f2.Updates(func(t *fox.Txn) error { return t.Truncate("POST") })
					run.Count("measured_after_partial_truncate", 1)
				}
				if measured%8 == 0 {
					// handles taken on the tree that a later commit replaces, released only afterwards: a Lookup context, an
					// iterator used for Reverse, a CloneWith copy
					_, lc, _ := f2.Lookup(nil, req)
					it := f2.Iter()
					var cw fox.ContextCloser
					if lc != nil {
						cw = lc.CloneWith(nil, req)
					}
					_, _ = f2.Handle("GET", "/zz-later-commit", h2)
					for range it.Reverse(func(y func(string) bool) { y(req.Method) }, req.Host, req.URL.Path) {
					}
					if cw != nil {
						cw.Close()
					}
					if lc != nil {
						lc.Close()
					}
					run.Count("measured_after_stale_handles_were_released", 1)
				}
				for i := 0; i < 5; i++ {
					f2.ServeHTTP(w, req)
				}
				cold := testing.AllocsPerRun(50, func() { f2.ServeHTTP(w, req) })
				run.Count("measured_on_a_router_of_its_own", 1)
				if cloning {
					run.Count("measured_with_handler_using_CloneWith", 1)
				}
				if cold > 0 {
					run.Violate("allocates-alone|"+c.RoutesString()+"|"+q.String(), fmt.Sprintf("routing a matching request allocates %.2f objects per request on a router that serves only this request (after 5 warm-up requests; handler uses CloneWith+Close: %t)\nroutes in registration order: %v\nrequest: %s\nmatched: %s (slash-adjusted=%t)", cold, cloning, order, q, rte.Pattern(), tsr), c)
				}
				// reverse lookups (Router.Reverse, Iter.Reverse, a read transaction's Reverse) run between the requests and borrow
				// pooled contexts too: the requests still allocate nothing
				if measured%4 == 2 {
					mix := testing.AllocsPerRun(50, func() {
						_, _ = f2.Reverse(req.Method, req.Host, req.URL.Path)
						f2.ServeHTTP(w, req)
					})
					run.Count("measured_with_reverse_lookups_in_between", 1)
					if mix > 0 {
						run.Violate("allocates-after-reverse|"+c.RoutesString()+"|"+q.String(), fmt.Sprintf("a matching request preceded by Router.Reverse for the same target allocates %.2f objects per pair (each alone allocates nothing)\nroutes: %v\nrequest: %s", mix, order, q), c)
					}
				}
				// Lookup + Close is the same routing step without the handler
				look := testing.AllocsPerRun(50, func() {
					if _, cc, _ := f2.Lookup(nil, req); cc != nil {
						cc.Close()
					}
				})
				run.Count("measured_lookup_close", 1)
				if look > 0 {
					run.Violate("allocates-lookup|"+c.RoutesString()+"|"+q.String(), fmt.Sprintf("Lookup+Close of a matching request allocates %.2f objects per call\nroutes: %v\nrequest: %s", look, order, q), c)
				}
			}
			// interleaved with the previous matching request of this router: pooled slices sized by one request must
			// still serve the other without growing again
			if prev != nil {
				p0 := prev
				pair := testing.AllocsPerRun(50, func() { f.ServeHTTP(w, p0); f.ServeHTTP(w, req) })
				run.Count("measured_interleaved_pairs", 1)
				if pair > 0 {
					run.Violate("allocates-interleaved|"+c.RoutesString()+"|"+q.String(), fmt.Sprintf("two matching requests served alternately allocate %.2f objects per pair although each alone allocates nothing\nroutes: %s\nrequests: %s %s%s and %s", pair, c.RoutesString(), p0.Method, p0.Host, p0.URL.Path, q), c)
				}
			}
			prev = req
		}
	}
	run.Count("measured_requests", int64(measured))
	deepHosts(run, w)
	slashSites(run, w)
	hostForms(run, w)
}

// hostForms: one route set mixing static, {param} and overlapping hostnames with path-only routes, x every spelling
// of the Host header a client may legitimately (or sloppily) send - port, no port, root dot, IPv6 literal with and
// without port, zone, unbalanced bracket, stray colons - x every path of the set. Every request the router serves is
// measured, whichever route it ends on (hostname route, hostname reached after backtracking out of a sibling label,
// path-only route reached after the hostname walk failed).
func hostForms(run *kit.Run, w *nullW) {
	f, err := fox.New(fox.WithIgnoreTrailingSlash(true))
	if err != nil {
		run.Inconclusive("fox.New: %v", err)
		return
	}
	hit := 0
	h := func(c fox.Context) { hit++ }
	routes := []string{
		"api.example.com/v1/users", "{sub}.example.com/v1/orders", "{sub}.{b}.example.com/v1/deep/{id}", "api.{tenant}.example.com/v1/users", "api.{tenant}.example.com/t/{id}",
		"{sub}/one/{id}", "example.com/", "example.co/v1/users", "a.b/v1/*{rest}",
		"/health", "/items/{id}", "/v1/orders", "/v1/users/", "/files/*{path}", "/t/{id}/x",
	}
	for _, p := range routes {
		if _, err := f.Handle("GET", p, h); err != nil {
			run.Inconclusive("hostForms: %s: %v", p, err)
			return
		}
	}
	hosts := []string{
		"", "api.example.com", "api.example.com:8080", "api.example.com.", "api.example.com.:8080", "api.acme.example.com", "api.acme.example.com:443",
		"x.y.example.com", "zz.example.com", "example.com", "example.co", "example.c", "a.b", "a.b.", "localhost", "localhost:80", "nomatch.org",
		"[::1]", "[::1]:8080", "[2001:db8::1]", "[2001:db8::1]:443", "[fe80::1%25eth0]", "[fe80::1%25eth0]:80", "::1", "[::1", "::1]", "[::1]x", "[::1]:",
		"a:b:c", "example.com:", "example.com:80:80", ":8080", ":", "127.0.0.1", "127.0.0.1:80", "api.example.com:http", "API.example.com", "api..example.com",
		"api.acme.example.com.", "api.acme.example.org", "api.acme.example.comx", "api.example.comx", "a", "a:1",
	}
	paths := []string{"/health", "/items/7", "/v1/users", "/v1/users/", "/v1/orders", "/v1/orders/", "/t/9", "/t/9/x", "/v1/deep/3", "/one/1", "/", "/files/a/b/c", "/v1/x/y"}
	served := 0
	for _, host := range hosts {
		for _, path := range paths {
			req := &http.Request{Method: "GET", Host: host, URL: &url.URL{Path: path}, Header: http.Header{}}
			hit = 0
			for i := 0; i < 5; i++ {
				f.ServeHTTP(w, req)
			}
			if hit == 0 {
				continue
			}
			served++
			allocs := testing.AllocsPerRun(100, func() { f.ServeHTTP(w, req) })
			id := fmt.Sprintf("host-form|%q|%s", host, path)
			run.Case(id, true)
			run.Count("measured_host_forms", 1)
			if allocs > 0 {
				run.Violate("allocates-host-form|"+id, fmt.Sprintf("routing GET %s with Host %q, which the router serves, allocates %.2f objects per request\nroutes: %v", path, host, allocs, routes), nil)
				continue
			}
			// the same request through Lookup and Reverse
			la := testing.AllocsPerRun(50, func() {
				if rte, cc, _ := f.Lookup(nil, req); rte != nil {
					cc.Close()
				}
			})
			if la > 0 {
				run.Violate("allocates-host-form-lookup|"+id, fmt.Sprintf("Lookup+Close of GET %s with Host %q allocates %.2f objects per call\nroutes: %v", path, host, la, routes), nil)
			}
		}
	}
	if served < len(hosts) {
		run.Inconclusive("hostForms: only %d requests served", served)
	}
}

// deepHosts: hostnames of many labels, every label also reachable through a {param} sibling whose continuation does
// not fit the request: the lookup goes down the static labels and sets one alternative aside per label.
func deepHosts(run *kit.Run, w *nullW) {
	for _, labels := range []int{2, 3, 5, 8, 9, 10, 12, 16, 24} {
		f, err := fox.New()
		if err != nil {
			run.Inconclusive("fox.New: %v", err)
			return
		}
		hit := 0
		h := func(c fox.Context) { hit++ }
		ls := make([]string, labels)
		for i := range ls {
			ls[i] = fmt.Sprintf("l%d", i)
		}
		full := strings.Join(ls, ".")
		var routes []string
		add := func(p string) {
			if _, err := f.Handle("GET", p, h); err == nil {
				routes = append(routes, p)
			}
		}
		add(full + "/x/{id}")
		for k := 0; k < labels; k++ {
			alt := append([]string(nil), ls[:k]...)
			alt = append(alt, fmt.Sprintf("{h%d}", k), "zz")
			add(strings.Join(alt, ".") + "/x/{id}")
		}
		for _, host := range []string{full, full + ":8080"} {
			req := &http.Request{Method: "GET", Host: host, URL: &url.URL{Path: "/x/42"}, Header: http.Header{}}
			for i := 0; i < 10; i++ {
				f.ServeHTTP(w, req)
			}
			hit = 0
			allocs := testing.AllocsPerRun(100, func() { f.ServeHTTP(w, req) })
			id := fmt.Sprintf("deep-host|labels=%d|%s", labels, host)
			run.Case(id, true)
			run.Count("measured_deep_hostnames", 1)
			if hit == 0 {
				run.Violate("not-served|"+id, fmt.Sprintf("host %s is not served by %s", host, routes[0]), nil)
				continue
			}
			if allocs > 0 {
				run.Violate("allocates-deep-host|"+id, fmt.Sprintf("routing a request for a hostname of %d labels (every label also has a {param} sibling) allocates %.2f objects per request\nroutes: %v\nhost: %s", labels, allocs, routes, host), nil)
			}
		}
	}
}

// slashSites: every place where the matcher records a trailing-slash opportunity is reached by some small route set.
// All sets of one or two patterns of a slash-focused pool, with trailing slashes ignored, x all paths of up to three
// segments over four values (with, without and with a doubled-free extra slash): every request that is served is
// measured.
func slashSites(run *kit.Run, w *nullW) {
	pool := []string{"/{p0}", "/{p0}/", "/{p0}/{p1}", "/{p0}/{p1}/", "/{p0}/v", "/{p0}/v{p1}", "/a", "/a/", "/a/{p1}", "/a/{p1}/", "/a/*{c1}", "/a{p0}", "/a{p0}/", "/ab", "/a/b", "/a/b/", "/*{c0}/b/", "/a/*{c1}/x/", "/{p0}/*{c1}", "/{p0}/v/"}
	vals := []string{"a", "b", "v", "vx"}
	var paths []string
	var rec func(prefix string, d int)
	rec = func(prefix string, d int) {
		if d > 0 {
			paths = append(paths, prefix, prefix+"/")
		}
		if d == 3 {
			return
		}
		for _, v := range vals {
			rec(prefix+"/"+v, d+1)
		}
	}
	rec("", 0)
	measured := 0
	for i := 0; i < len(pool); i++ {
		for j := i; j < len(pool); j++ {
			f, err := fox.New(fox.WithIgnoreTrailingSlash(true))
			if err != nil {
				run.Inconclusive("fox.New: %v", err)
				return
			}
			hit := 0
			h := func(c fox.Context) { hit++ }
			set := []string{pool[i]}
			if j != i {
				set = append(set, pool[j])
			}
			ok := true
			for _, p := range set {
				if _, err := f.Handle("GET", p, h); err != nil {
					ok = false
				}
			}
			if !ok {
				continue
			}
			for _, p := range paths {
				req := &http.Request{Method: "GET", URL: &url.URL{Path: p}, Header: http.Header{}}
				hit = 0
				f.ServeHTTP(w, req)
				if hit == 0 {
					continue
				}
				for k := 0; k < 3; k++ {
					f.ServeHTTP(w, req)
				}
				allocs := testing.AllocsPerRun(20, func() { f.ServeHTTP(w, req) })
				measured++
				if allocs > 0 {
					run.Violate(fmt.Sprintf("allocates-slash-site|%v|%s", set, p), fmt.Sprintf("routing a served request allocates %.2f objects per request (trailing slashes ignored)\nroutes: %v\nrequest: GET %s", allocs, set, p), nil)
				}
			}
			run.Case(fmt.Sprintf("slash-sites|%v", set), true)
		}
	}
	run.Count("measured_small_slash_sets", int64(measured))
}
