// C19: a route carries exactly the options it was created with.
// Oracle: a small model of (global option sequence, route option sequence) - last wins, the two trailing-slash modes
// exclude each other, a nil per-route resolver means none, annotations return the last value set - compared with the
// route accessors and with Context.ClientIP observed inside every handler kind; invalid options must be rejected
// with ErrInvalidConfig / ErrInvalidRoute and never panic.
package main

import (
	"context"
	"errors"
	"fmt"
	"math/rand/v2"
	"net"
	"net/http"
	"net/url"
	"strings"
	"sync"
	"sync/atomic"

	"foxverif/kit"
	"foxverif/ref"

	"github.com/tigerwill90/fox"
)

const rule = "cases = (sequence of 0-5 global options among ignore/redirect trailing slash on/off and client-IP resolvers) x (sequence of 0-6 route options among the same plus annotations, repeated and contradictory) x pattern x creation path " +
	"(Handle, Update, NewRoute+HandleRoute, NewRoute+UpdateRoute, in and out of transactions) x handler kind in which Context.ClientIP is called; plus invalid options (nil handlers/middleware, annotation keys that cannot be map keys), annotations explicitly set to nil, wildcard counts at and around the documented and configured limits; " +
	"distinct by (option sequences, pattern, creation path); non-trivial when at least two options interact (same family set twice, or both trailing-slash modes, or route overriding global)"

type resolver struct {
	name string
	ip   string
	fail bool
}

func (r *resolver) ClientIP(fox.Context) (*net.IPAddr, error) {
	if r.fail {
		return nil, errors.New("resolver " + r.name + " failed")
	}
	return &net.IPAddr{IP: net.ParseIP(r.ip)}, nil
}

var resolvers = []*resolver{{"G", "1.1.1.1", false}, {"R1", "2.2.2.2", false}, {"R2", "3.3.3.3", false}, {"F", "", true}}

// zeroRes is a stateless resolver: its value is the zero value of its type (like clientip.RemoteAddr{}), and it is a
// perfectly valid, non-nil resolver. It has index len(resolvers).
type zeroRes struct{}

func (zeroRes) ClientIP(fox.Context) (*net.IPAddr, error) {
	return &net.IPAddr{IP: net.ParseIP("4.4.4.4")}, nil
}

func resolverAt(i int) fox.ClientIPResolver {
	if i == len(resolvers) {
		return zeroRes{}
	}
	return resolvers[i]
}

func resName(i int) string {
	if i == len(resolvers) {
		return "Z"
	}
	return resolvers[i].name
}

type opt struct {
	Kind string `json:"kind"` // ignore redirect resolver annot
	On   bool   `json:"on,omitempty"`
	Res  int    `json:"res,omitempty"` // index into resolvers, -1 = nil
	Key  int    `json:"key,omitempty"`
	Val  int    `json:"val,omitempty"`
}

func (o opt) String() string {
	switch o.Kind {
	case "ignore", "redirect":
		return fmt.Sprintf("%s(%t)", o.Kind, o.On)
	case "resolver":
		if o.Res < 0 {
			return "resolver(nil)"
		}
		return "resolver(" + resName(o.Res) + ")"
	}
	if o.Val < 0 {
		return fmt.Sprintf("annot(k%d=nil)", o.Key)
	}
	return fmt.Sprintf("annot(k%d=%d)", o.Key, o.Val)
}

var defaultUses atomic.Int64

type annotKey struct{ n int }

type state struct {
	ignore, redirect bool
	res              int // -1 none
	annots           map[int]int
}

func apply(s state, o opt, global bool) state {
	switch o.Kind {
	case "ignore":
		s.ignore = o.On
		if o.On {
			s.redirect = false
		}
	case "redirect":
		s.redirect = o.On
		if o.On {
			s.ignore = false
		}
	case "resolver":
		s.res = o.Res
	case "annot":
		m := map[int]int{}
		for k, v := range s.annots {
			m[k] = v
		}
		m[o.Key] = o.Val
		s.annots = m
	}
	return s
}

func globalOpt(o opt) fox.GlobalOption {
	switch o.Kind {
	case "ignore":
		return fox.WithIgnoreTrailingSlash(o.On)
	case "redirect":
		return fox.WithRedirectTrailingSlash(o.On)
	default:
		if o.Res < 0 {
			return fox.WithClientIPResolver(nil)
		}
		return fox.WithClientIPResolver(resolverAt(o.Res))
	}
}

func routeOpt(o opt) fox.RouteOption {
	switch o.Kind {
	case "ignore":
		return fox.WithIgnoreTrailingSlash(o.On)
	case "redirect":
		return fox.WithRedirectTrailingSlash(o.On)
	case "annot":
		if o.Val < 0 {
			// an explicitly nil value: the last value set for the key is nil
			return fox.WithAnnotation(annotKey{o.Key}, nil)
		}
		return fox.WithAnnotation(annotKey{o.Key}, o.Val)
	default:
		if o.Res < 0 {
			return fox.WithClientIPResolver(nil)
		}
		return fox.WithClientIPResolver(resolverAt(o.Res))
	}
}

type caseT struct {
	Global  []opt  `json:"global"`
	Route   []opt  `json:"route"`
	Pattern string `json:"pattern"`
	Path    int    `json:"creation_path"`
}

var patterns = []string{"/a", "/a/{b}", "/a/{b}/*{c}", "h.com/x/{y}", "{s}.h.com/x", "/u/id:{i}/k*{r}/end", "/t/", "Up.H.com/x/{y}", "{Sub}.h.com/Mixed"}
var paths = []string{"Handle", "Update", "NewRoute+HandleRoute", "NewRoute+UpdateRoute", "Txn.Handle", "Txn.Update", "Txn.HandleRoute"}

func genOpts(r *rand.Rand, n int, global bool) []opt {
	var out []opt
	haveRes := false
	for i := 0; i < n; i++ {
		switch k := r.IntN(8); {
		case k < 3:
			out = append(out, opt{Kind: "ignore", On: r.IntN(3) > 0})
		case k < 5:
			out = append(out, opt{Kind: "redirect", On: r.IntN(3) > 0})
		case k < 7 || global:
			res := r.IntN(len(resolvers)+2) - 1
			if global && res < 0 && haveRes {
				// a nil global resolver after a non-nil one is read differently by the doc comment and the code: not generated
				res = 0
			}
			if res >= 0 {
				haveRes = true
			}
			out = append(out, opt{Kind: "resolver", Res: res})
		default:
			out = append(out, opt{Kind: "annot", Key: r.IntN(3), Val: r.IntN(100) - 15})
		}
	}
	return out
}

func main() {
	run := kit.Start("C19", rule)
	defer run.Finish()
	if run.ReplayIn != "" {
		var c caseT
		if err := kit.LoadReplay(run.ReplayIn, &c); err != nil {
			run.Inconclusive("cannot load replay: %v", err)
			return
		}
		check(run, c)
		return
	}
	n := run.Pick(5000, 8000000)
	if run.Mode() == "race" {
		n = run.Pick(300, 5000)
	}
	run.Parallel(n/100, func(b int) {
		r := run.Rand(uint64(b))
		for i := 0; i < 100; i++ {
			c := caseT{Global: genOpts(r, r.IntN(6), true), Route: genOpts(r, r.IntN(7), false), Pattern: patterns[r.IntN(len(patterns))], Path: r.IntN(len(paths))}
			check(run, c)
		}
	})
	invalid(run)
	concurrent(run)
	wildcardCount(run)
}

// wildcardCount: the documented default limit on wildcards per route is math.MaxUint16; the count reported by
// ParamsLen is the number of wildcards declared, at and around that limit and around a configured limit.
func wildcardCount(run *kit.Run) {
	h := func(fox.Context) {}
	mk := func(n int) string {
		var sb strings.Builder
		sb.Grow(4*n + 1)
		for i := 0; i < n; i++ {
			sb.WriteString("/{a}")
		}
		return sb.String()
	}
	type lc struct {
		limit int // 0 = default
		n     int
	}
	for _, c := range []lc{{0, 65534}, {0, 65535}, {0, 65536}, {0, 65537}, {0, 65536 + 3}, {0, 131072}, {0, 131075}, {255, 255}, {255, 256}, {255, 65536 + 255}, {255, 65536 + 256}, {1, 65537}, {65535, 65536}, {65535, 131071}} {
		var opts []fox.GlobalOption
		limit := 65535
		if c.limit > 0 {
			opts = append(opts, fox.WithMaxRouteParams(uint16(c.limit)))
			limit = c.limit
		}
		f, err := fox.New(opts...)
		if err != nil {
			run.Inconclusive("fox.New: %v", err)
			return
		}
		id := fmt.Sprintf("wildcards=%d|limit=%d", c.n, limit)
		run.Case("wildcard-count|"+id, true)
		run.Eval(1)
		run.Guard("wildcard-count-panic|"+id, c, func() {
			rte, err := f.NewRoute(mk(c.n), h)
			switch {
			case c.n > limit && err == nil:
				run.Violate("wildcard-count|"+id, fmt.Sprintf("a pattern with %d wildcards is accepted although the limit is %d (ParamsLen()=%d)", c.n, limit, rte.ParamsLen()), c)
			case c.n > limit && !errors.Is(err, fox.ErrInvalidRoute):
				run.Violate("wildcard-count|"+id, fmt.Sprintf("a pattern with %d wildcards (limit %d) is rejected with %v, expected ErrInvalidRoute", c.n, limit, err), c)
			case c.n <= limit && err != nil:
				run.Violate("wildcard-count|"+id, fmt.Sprintf("a pattern with %d wildcards is rejected although the limit is %d: %v", c.n, limit, err), c)
			case c.n <= limit && rte.ParamsLen() != c.n:
				run.Violate("wildcard-count|"+id, fmt.Sprintf("a pattern with %d wildcards reports ParamsLen()=%d", c.n, rte.ParamsLen()), c)
			}
		})
	}
}

type tagKey struct{}

// concurrent: routes created at the same time, each with its own options (middleware, resolver, annotation), carry
// exactly their own configuration afterwards.
func concurrent(run *kit.Run) {
	rounds := run.Pick(150, 10000)
	for round := 0; round < rounds; round++ {
		var gopts []fox.GlobalOption
		for i := 0; i < round%7; i++ {
			gopts = append(gopts, fox.WithMiddleware(func(n fox.HandlerFunc) fox.HandlerFunc { return n }))
		}
		f, err := fox.New(gopts...)
		if err != nil {
			run.Inconclusive("fox.New: %v", err)
			return
		}
		const G = 8
		routes := make([]*fox.Route, G)
		var wg sync.WaitGroup
		start := make(chan struct{})
		for g := 0; g < G; g++ {
			wg.Add(1)
			go func(g int) {
				defer wg.Done()
				<-start
				tag := func(next fox.HandlerFunc) fox.HandlerFunc {
					return func(c fox.Context) {
						if t, _ := c.Request().Context().Value(tagKey{}).(*[]int); t != nil {
							*t = append(*t, g)
						}
						next(c)
					}
				}
				routes[g], _ = f.NewRoute(fmt.Sprintf("/c/%d/{x}", g), func(fox.Context) {}, fox.WithMiddleware(tag), fox.WithAnnotation(annotKey{0}, g), fox.WithClientIPResolver(resolvers[g%3]))
			}(g)
		}
		close(start)
		wg.Wait()
		for g, rte := range routes {
			run.Case(fmt.Sprintf("concurrent|%d|%d", round, g), true)
			if rte == nil {
				run.Violate("concurrent-newroute", "NewRoute failed under concurrency", nil)
				continue
			}
			var trace []int
			req := (&http.Request{Method: "GET", URL: &url.URL{Path: fmt.Sprintf("/c/%d/v", g)}, Header: http.Header{}}).WithContext(context.WithValue(context.Background(), tagKey{}, &trace))
			tc := fox.NewTestContextOnly(&nullW{http.Header{}}, req)
			rte.HandleMiddleware(tc)
			if len(trace) != 1 || trace[0] != g || rte.Annotation(annotKey{0}) != g || rte.ClientIPResolver() != fox.ClientIPResolver(resolvers[g%3]) {
				run.Violate(fmt.Sprintf("concurrent-config|globals=%d", round%7), fmt.Sprintf("route %d created concurrently with 7 others on a router with %d global middleware carries middleware of route(s) %v, annotation %v", g, round%7, trace, rte.Annotation(annotKey{0})), map[string]int{"globals": round % 7, "route": g})
			}
		}
	}
	run.Count("concurrent_rounds", int64(rounds))
}

func interacts(c caseT) bool {
	fam := map[string]int{}
	for _, o := range c.Global {
		f := o.Kind
		if f == "redirect" {
			f = "ignore"
		}
		fam["g"+f]++
	}
	for _, o := range c.Route {
		f := o.Kind
		if f == "redirect" {
			f = "ignore"
		}
		fam["r"+f]++
	}
	for k, v := range fam {
		if v > 1 {
			return true
		}
		if k[0] == 'r' && fam["g"+k[1:]] > 0 {
			return true
		}
	}
	return false
}

type nullW struct{ h http.Header }

func (w *nullW) Header() http.Header         { return w.h }
func (w *nullW) Write(b []byte) (int, error) { return len(b), nil }
func (w *nullW) WriteHeader(int)             {}

func check(run *kit.Run, c caseT) {
	id := fmt.Sprintf("global=%v route=%v pattern=%s via=%s", c.Global, c.Route, c.Pattern, paths[c.Path])
	run.Guard("panic|"+id, c, func() {
		g := state{res: -1}
		var gopts []fox.GlobalOption
		for _, o := range c.Global {
			g = apply(g, o, true)
			gopts = append(gopts, globalOpt(o))
		}
		seen := map[string]string{} // handler kind -> ClientIP result
		var cloneProblems []string
		record := func(kind string) func(c fox.Context) {
			return func(c fox.Context) {
				ip, err := c.ClientIP()
				// a copy of the context taken by the handler (for a background job) stands for the same route and
				// configuration, however the request reached the handler
				cl := c.Clone()
				ip2, err2 := cl.ClientIP()
				if cl.Route() != c.Route() || cl.Pattern() != c.Pattern() || (err == nil) != (err2 == nil) || (err == nil && ip.String() != ip2.String()) || (err != nil && err.Error() != err2.Error()) {
					cloneProblems = append(cloneProblems, fmt.Sprintf("Clone taken inside the %s handler (request %s) stands for pattern %q and ClientIP (%v, %v); the context itself shows %q and (%v, %v)", kind, c.Path(), cl.Pattern(), ip2, err2, c.Pattern(), ip, err))
				}
				switch {
				case errors.Is(err, fox.ErrNoClientIPResolver):
					seen[kind] = "none"
				case err != nil:
					seen[kind] = "fail"
				default:
					seen[kind] = ip.String()
				}
			}
		}
		// router-wide middleware: every route is created with all of it, in registration order, however the request
		// reaches the route and wherever DefaultOptions (which puts its own two in front) is placed among the options
		var order []string
		tagmw := func(name string) fox.MiddlewareFunc {
			return func(next fox.HandlerFunc) fox.HandlerFunc {
				return func(c fox.Context) { order = append(order, name); next(c) }
			}
		}
		nTags := 3 + len(c.Route)%3
		defaultAt := (len(c.Global) + len(c.Route) + c.Path) % (nTags + 2) // == nTags+1: DefaultOptions not used
		// DefaultOptions' Logger writes every request to the process' standard output: only the first few hundred cases
		// of a run use it (all positions among 3..5 entries are covered many times over)
		if defaultAt <= nTags && defaultUses.Add(1) > 400 {
			defaultAt = nTags + 1
		}
		for i := 0; i < nTags; i++ {
			if defaultAt == i {
				gopts = append(gopts, fox.DefaultOptions())
			}
			if i%2 == 0 {
				gopts = append(gopts, fox.WithMiddleware(tagmw(fmt.Sprintf("m%d", i))))
			} else {
				gopts = append(gopts, fox.WithMiddlewareFor(fox.RouteHandler|fox.NoRouteHandler, tagmw(fmt.Sprintf("m%d", i))))
			}
		}
		if defaultAt == nTags {
			gopts = append(gopts, fox.DefaultOptions())
		}
		wantOrder := ""
		for i := 0; i < nTags; i++ {
			wantOrder += fmt.Sprintf("m%d ", i)
		}
		gopts = append(gopts, fox.WithMiddleware(func(next fox.HandlerFunc) fox.HandlerFunc {
			return func(c fox.Context) { seen["router-wide middleware"] = "ran"; next(c) }
		}))
		gopts = append(gopts, fox.WithNoRouteHandler(record("noroute")), fox.WithNoMethodHandler(record("nomethod")), fox.WithOptionsHandler(record("options")),
			fox.WithMiddlewareFor(fox.RedirectHandler, func(next fox.HandlerFunc) fox.HandlerFunc {
				return func(c fox.Context) { record("redirect")(c); next(c) }
			}))
		f, err := fox.New(gopts...)
		if err != nil {
			run.Violate("new|"+id, fmt.Sprintf("fox.New rejected valid options: %v\n%s", err, id), c)
			return
		}
		st := f.Stats()
		if st.IgnoreTrailingSlash != g.ignore || st.RedirectTrailingSlash != g.redirect || st.ClientIP != (g.res >= 0) {
			run.Violate("router-stats|"+id, fmt.Sprintf("Stats() reports ignore=%t redirect=%t clientip=%t, the option sequence gives ignore=%t redirect=%t resolver=%d\n%s",
				st.IgnoreTrailingSlash, st.RedirectTrailingSlash, st.ClientIP, g.ignore, g.redirect, g.res, id), c)
		}
		want := g
		var ropts []fox.RouteOption
		for _, o := range c.Route {
			want = apply(want, o, false)
			ropts = append(ropts, routeOpt(o))
		}
		h := record("route")
		var rte *fox.Route
		switch paths[c.Path] {
		case "Handle":
			rte, err = f.Handle("GET", c.Pattern, h, ropts...)
		case "Update":
			_, _ = f.Handle("GET", c.Pattern, h, fox.WithIgnoreTrailingSlash(true), fox.WithAnnotation(annotKey{0}, -5), fox.WithClientIPResolver(resolvers[2]))
			rte, err = f.Update("GET", c.Pattern, h, ropts...)
		case "NewRoute+HandleRoute":
			if rte, err = f.NewRoute(c.Pattern, h, ropts...); err == nil {
				err = f.HandleRoute("GET", rte)
			}
		case "NewRoute+UpdateRoute":
			_, _ = f.Handle("GET", c.Pattern, h, fox.WithRedirectTrailingSlash(true), fox.WithAnnotation(annotKey{1}, -6))
			if rte, err = f.NewRoute(c.Pattern, h, ropts...); err == nil {
				err = f.UpdateRoute("GET", rte)
			}
		case "Txn.Handle":
			err = f.Updates(func(t *fox.Txn) (e error) { rte, e = t.Handle("GET", c.Pattern, h, ropts...); return })
		case "Txn.Update":
			err = f.Updates(func(t *fox.Txn) (e error) {
				if _, e = t.Handle("GET", c.Pattern, h, fox.WithClientIPResolver(resolvers[1])); e != nil {
					return
				}
				rte, e = t.Update("GET", c.Pattern, h, ropts...)
				return
			})
		default:
			err = f.Updates(func(t *fox.Txn) (e error) {
				if rte, e = f.NewRoute(c.Pattern, h, ropts...); e != nil {
					return
				}
				return t.HandleRoute("GET", rte)
			})
		}
		if err != nil || rte == nil {
			run.Violate("create|"+id, fmt.Sprintf("creating the route failed: %v\n%s", err, id), c)
			return
		}
		run.Case(id, interacts(c))
		run.Count("via_"+paths[c.Path], 1)
		stored := f.Route("GET", c.Pattern)
		if stored != rte {
			run.Violate("stored|"+id, "the route returned at creation is not the one the router stores\n"+id, c)
		}
		// accessors
		var problems []string
		if rte.IgnoreTrailingSlashEnabled() != want.ignore || rte.RedirectTrailingSlashEnabled() != want.redirect {
			problems = append(problems, fmt.Sprintf("ignore=%t redirect=%t, expected ignore=%t redirect=%t", rte.IgnoreTrailingSlashEnabled(), rte.RedirectTrailingSlashEnabled(), want.ignore, want.redirect))
		}
		gotRes := rte.ClientIPResolver()
		if (want.res < 0) != (gotRes == nil) || (want.res >= 0 && gotRes != resolverAt(want.res)) {
			problems = append(problems, fmt.Sprintf("ClientIPResolver()=%v, expected resolver index %d", gotRes, want.res))
		}
		for k := 0; k < 4; k++ {
			v, ok := want.annots[k]
			got := rte.Annotation(annotKey{k})
			if (ok && v >= 0 && got != v) || (ok && v < 0 && got != nil) || (!ok && got != nil) {
				problems = append(problems, fmt.Sprintf("Annotation(k%d)=%v, expected %v (set=%t)", k, got, v, ok))
			}
		}
		if rte.Hostname()+rte.Path() != rte.Pattern() || rte.Pattern() != c.Pattern {
			problems = append(problems, fmt.Sprintf("Hostname()+Path()=%q Pattern()=%q", rte.Hostname()+rte.Path(), rte.Pattern()))
		}
		if wc := len(ref.Tokenize(c.Pattern).Wildcards()); rte.ParamsLen() != wc {
			problems = append(problems, fmt.Sprintf("ParamsLen()=%d, pattern has %d wildcards", rte.ParamsLen(), wc))
		}
		// Context.ClientIP per handler kind
		host, path := "", c.Pattern
		if i := strings.IndexByte(c.Pattern, '/'); i > 0 {
			host, path = c.Pattern[:i], c.Pattern[i:]
		}
		host = strings.NewReplacer("{s}", "v", "{Sub}", "v").Replace(host)
		path = strings.NewReplacer("{b}", "v", "*{c}", "v/w", "{y}", "v", "{i}", "v", "*{r}", "v/w").Replace(path)
		serve := func(method, host, path string) {
			f.ServeHTTP(&nullW{http.Header{}}, &http.Request{Method: method, Host: host, URL: &url.URL{Path: path}, Header: http.Header{}, RemoteAddr: "192.0.2.9:1", Proto: "HTTP/1.1", ProtoMajor: 1, ProtoMinor: 1})
		}
		name := func(i int) string {
			switch {
			case i < 0:
				return "none"
			case i == len(resolvers):
				return "4.4.4.4"
			case resolvers[i].fail:
				return "fail"
			}
			return resolvers[i].ip
		}
		f2 := f
		_ = f2
		serve("GET", host, path)
		if seen["route"] != name(want.res) {
			problems = append(problems, fmt.Sprintf("Context.ClientIP inside the route handler gives %q, the route's resolver gives %q", seen["route"], name(want.res)))
		}
		if seen["router-wide middleware"] != "ran" {
			problems = append(problems, "middleware: the router-wide middleware did not run for a direct request to the route")
		}
		if got := strings.Join(order, " ") + " "; got != wantOrder {
			problems = append(problems, fmt.Sprintf("middleware: the route ran the router-wide middleware [%s], registered were [%s] (DefaultOptions at position %d of %d)", strings.TrimSpace(got), strings.TrimSpace(wantOrder), defaultAt, nTags))
		}
		// the very same request object dispatched twice (a handler that rewrites the target and hands the request back to
		// the router): each dispatch resolves the client IP with the resolver in force for the handler that runs
		{
			rq := &http.Request{Method: "GET", Host: host, URL: &url.URL{Path: "/definitely/not/registered"}, Header: http.Header{}, RemoteAddr: "192.0.2.9:1", Proto: "HTTP/1.1", ProtoMajor: 1, ProtoMinor: 1}
			delete(seen, "route")
			delete(seen, "noroute")
			f.ServeHTTP(&nullW{http.Header{}}, rq)
			rq.URL.Path = path
			f.ServeHTTP(&nullW{http.Header{}}, rq)
			if seen["noroute"] != name(g.res) || seen["route"] != name(want.res) {
				problems = append(problems, fmt.Sprintf("Context.ClientIP for one request object dispatched first to the no-route handler and then to the route gives %q and %q, the resolvers in force give %q and %q", seen["noroute"], seen["route"], name(g.res), name(want.res)))
			}
			delete(seen, "noroute")
			rq.URL.Path = "/definitely/not/registered"
			f.ServeHTTP(&nullW{http.Header{}}, rq)
			if seen["noroute"] != name(g.res) {
				problems = append(problems, fmt.Sprintf("Context.ClientIP for one request object dispatched to the route and then to the no-route handler gives %q there, the router-wide resolver gives %q", seen["noroute"], name(g.res)))
			}
		}
		order = order[:0]
		mkreq := func(p string) *http.Request {
			return &http.Request{Method: "GET", Host: host, URL: &url.URL{Path: p}, Header: http.Header{}, RemoteAddr: "192.0.2.9:1", Proto: "HTTP/1.1", ProtoMajor: 1, ProtoMinor: 1}
		}
		alt := path + "/"
		if strings.HasSuffix(path, "/") {
			alt = strings.TrimSuffix(path, "/")
		}
		swallowed := strings.Contains(c.Pattern, "*{c}") // a suffix catch-all swallows the added slash
		// the same route reached by ignoring the trailing slash (when that is what its options say) runs the same chain
		if want.ignore && !swallowed {
			delete(seen, "route")
			delete(seen, "router-wide middleware")
			serve("GET", host, alt)
			if seen["route"] != name(want.res) {
				problems = append(problems, fmt.Sprintf("Context.ClientIP inside the route handler reached by ignoring the trailing slash gives %q, the route's resolver gives %q", seen["route"], name(want.res)))
			}
			if seen["router-wide middleware"] != "ran" {
				problems = append(problems, "middleware: the router-wide middleware did not run when the route was reached by ignoring the trailing slash")
			}
		}
		// manual dispatch: Lookup hands back the route and a context bound to it, for a direct match and for a
		// slash-adjusted one alike
		for _, lp := range []string{path, alt} {
			if lp == alt && swallowed {
				continue
			}
			r2, cc, tsr := f.Lookup(nil, mkreq(lp))
			if r2 != rte || tsr != (lp == alt) {
				problems = append(problems, fmt.Sprintf("Lookup(%q) returned route %p tsr=%t, expected the registered route %p tsr=%t", lp, r2, tsr, rte, lp == alt))
				if cc != nil {
					cc.Close()
				}
				continue
			}
			if cc.Route() != rte || cc.Pattern() != c.Pattern {
				problems = append(problems, fmt.Sprintf("Lookup(%q) (tsr=%t): the returned context is bound to route %p pattern %q, not to the returned route", lp, tsr, cc.Route(), cc.Pattern()))
			}
			delete(seen, "route")
			r2.Handle(cc)
			if seen["route"] != name(want.res) {
				problems = append(problems, fmt.Sprintf("Context.ClientIP inside the route handler dispatched by hand after Lookup(%q) (tsr=%t) gives %q, the route's resolver gives %q", lp, tsr, seen["route"], name(want.res)))
			}
			cc.Close()
		}
		serve("GET", host, "/definitely/not/registered")
		if seen["noroute"] != name(g.res) {
			problems = append(problems, fmt.Sprintf("Context.ClientIP inside the no-route handler gives %q, the router-wide resolver gives %q", seen["noroute"], name(g.res)))
		}
		// 405 / OPTIONS / redirect need the corresponding options: a second router with the same options plus those
		gopts2 := append(append([]fox.GlobalOption(nil), gopts...), fox.WithNoMethod(true), fox.WithAutoOptions(true))
		if f3, err := fox.New(gopts2...); err == nil {
			ro := append(append([]fox.RouteOption(nil), ropts...), fox.WithRedirectTrailingSlash(true))
			if _, err := f3.Handle("GET", c.Pattern, h, ro...); err == nil {
				f = f3
				delete(seen, "nomethod")
				delete(seen, "options")
				delete(seen, "redirect")
				serve("POST", host, path)
				serve("OPTIONS", host, path)
				serve("GET", host, alt)
				for _, k := range []string{"nomethod", "options", "redirect"} {
					if k == "redirect" && strings.Contains(c.Pattern, "*{c}") {
						continue // a suffix catch-all swallows the added slash: no redirect arises
					}
					if seen[k] != name(g.res) {
						problems = append(problems, fmt.Sprintf("Context.ClientIP inside the %s handler gives %q, the router-wide resolver gives %q", k, seen[k], name(g.res)))
					}
				}
			}
		}
		for _, p := range append(problems, cloneProblems...) {
			run.Violate("options|"+firstWord(p)+"|"+id, p+"\n"+id, c)
		}
		if run.WantSample() && interacts(c) {
			run.Sample(map[string]any{"global": fmt.Sprint(c.Global), "route": fmt.Sprint(c.Route), "pattern": c.Pattern, "via": paths[c.Path], "expected": fmt.Sprintf("ignore=%t redirect=%t resolver=%s annots=%v", want.ignore, want.redirect, name(want.res), want.annots)})
		}
	})
}

func firstWord(s string) string {
	if i := strings.IndexAny(s, " (="); i > 0 {
		return s[:i]
	}
	return s
}

type holder struct{ v any }

// invalid: ill-typed or nil options are rejected with the documented errors and never panic.
func invalid(run *kit.Run) {
	h := func(fox.Context) {}
	type tc struct {
		name string
		do   func() error
		want []error
	}
	cfgOrRoute := []error{fox.ErrInvalidConfig, fox.ErrInvalidRoute}
	keys := map[string]any{
		"nil":                       nil,
		"slice":                     []int{1},
		"map":                       map[string]int{},
		"func":                      func() {},
		"struct with slice field":   struct{ s []int }{[]int{1}},
		"array of slices":           [2][]int{},
		"struct holding a slice":    holder{[]int{1}},
		"struct holding a map":      holder{map[int]int{}},
		"array of any with a func":  [1]any{func() {}},
		"pointer to slice (valid)":  &[]int{1},
		"string (valid)":            "k",
		"struct holding int(valid)": holder{7},
	}
	var cases []tc
	for name, k := range keys {
		name, k := name, k
		valid := strings.Contains(name, "valid")
		for _, via := range []string{"Handle", "NewRoute", "Update", "Txn.Handle"} {
			via := via
			c := tc{name: "annotation key " + name + " via " + via, do: func() error {
				f, _ := fox.New()
				var err error
				switch via {
				case "Handle":
					_, err = f.Handle("GET", "/x", h, fox.WithAnnotation(k, 1))
				case "NewRoute":
					_, err = f.NewRoute("/x", h, fox.WithAnnotation(k, 1))
				case "Update":
					f.MustHandle("GET", "/x", h)
					_, err = f.Update("GET", "/x", h, fox.WithAnnotation(k, 1))
				default:
					err = f.Updates(func(t *fox.Txn) error { _, e := t.Handle("GET", "/x", h, fox.WithAnnotation(k, 1)); return e })
				}
				return err
			}, want: cfgOrRoute}
			if valid {
				c.want = nil
			}
			cases = append(cases, c)
		}
	}
	cases = append(cases,
		tc{"nil handler via Handle", func() error { f, _ := fox.New(); _, e := f.Handle("GET", "/x", nil); return e }, cfgOrRoute},
		tc{"nil handler via Update", func() error {
			f, _ := fox.New()
			f.MustHandle("GET", "/x", h)
			_, e := f.Update("GET", "/x", nil)
			return e
		}, cfgOrRoute},
		tc{"nil route via HandleRoute", func() error { f, _ := fox.New(); return f.HandleRoute("GET", nil) }, cfgOrRoute},
		tc{"nil route via UpdateRoute", func() error { f, _ := fox.New(); return f.UpdateRoute("GET", nil) }, cfgOrRoute},
		tc{"nil route middleware", func() error { f, _ := fox.New(); _, e := f.Handle("GET", "/x", h, fox.WithMiddleware(nil)); return e }, cfgOrRoute},
		tc{"nil among route middleware", func() error {
			f, _ := fox.New()
			_, e := f.Handle("GET", "/x", h, fox.WithMiddleware(func(n fox.HandlerFunc) fox.HandlerFunc { return n }, nil))
			return e
		}, cfgOrRoute},
		tc{"nil global middleware", func() error { _, e := fox.New(fox.WithMiddleware(nil)); return e }, cfgOrRoute},
		tc{"nil scoped middleware", func() error { _, e := fox.New(fox.WithMiddlewareFor(fox.RouteHandler, nil)); return e }, cfgOrRoute},
		tc{"nil no-route handler", func() error { _, e := fox.New(fox.WithNoRouteHandler(nil)); return e }, cfgOrRoute},
		tc{"nil no-method handler", func() error { _, e := fox.New(fox.WithNoMethodHandler(nil)); return e }, cfgOrRoute},
		tc{"nil options handler", func() error { _, e := fox.New(fox.WithOptionsHandler(nil)); return e }, cfgOrRoute},
	)
	for _, c := range cases {
		id := "invalid|" + c.name
		run.Case(id, true)
		var err error
		if run.Guard("invalid-panic|"+c.name, map[string]string{"case": c.name}, func() { err = c.do() }) {
			continue
		}
		if c.want == nil {
			if err != nil {
				run.Violate(id, fmt.Sprintf("%s: a valid option was rejected: %v", c.name, err), nil)
			}
			continue
		}
		ok := false
		for _, w := range c.want {
			ok = ok || errors.Is(err, w)
		}
		if !ok {
			run.Violate(id, fmt.Sprintf("%s: expected an error wrapping ErrInvalidConfig or ErrInvalidRoute, got %v", c.name, err), nil)
		}
	}
	run.Count("invalid_option_cases", int64(len(cases)))
}
