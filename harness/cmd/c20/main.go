// C20: the Logger middleware reports what actually happened.
// Oracle: table model over (handler behaviour, resolver configuration, handler kind) compared with the records
// received by a capturing slog.Handler; the response seen by the underlying writer and a panic passing through the
// middleware are compared with a run without the Logger.
package main

import (
	"context"
	"errors"
	"fmt"
	"io"
	"log"
	"log/slog"
	"net"
	"net/http"
	"net/url"
	"runtime"
	"strconv"
	"strings"
	"sync"

	"foxverif/kit"

	"github.com/tigerwill90/fox"
)

const rule = "cases = (handler behaviour: every final status 200-599 and 101, implicit 200 through Write, no write at all, informational header only, every 3xx code 300-399 with a Location header set directly and, up to 308, through the Redirect helper, 303 without Location) x " +
	"(resolver configuration: none, succeeding, failing, per-route override succeeding/failing/none) x (handler kind: route, 404, 405, redirect, OPTIONS, route reached through an alias that looks it up, route dispatched by hand after Router.Lookup, escaped path) x remote address notation; " +
	"x capturing handler enabled from DEBUG/INFO/WARN/ERROR; the product is enumerated; distinct by the tuple; non-trivial always; plus a concurrent phase (4 x GOMAXPROCS goroutines, each request encoding its id in path, status, host, client IP and Location: one consistent record per request)"

type rec struct {
	level slog.Level
	msg   string
	attrs map[string]string
	after bool // emitted after the wrapped handler returned
}

type capture struct {
	mu   sync.Mutex
	recs []rec
	done *bool
	min  slog.Level // records below this level are disabled (as a production handler configured at WARN would)
}

func (c *capture) Enabled(_ context.Context, l slog.Level) bool { return l >= c.min }
func (c *capture) Handle(_ context.Context, r slog.Record) error {
	x := rec{level: r.Level, msg: r.Message, attrs: map[string]string{}}
	r.Attrs(func(a slog.Attr) bool { x.attrs[a.Key] = a.Value.String(); return true })
	c.mu.Lock()
	if c.done != nil {
		x.after = *c.done
	}
	c.recs = append(c.recs, x)
	c.mu.Unlock()
	return nil
}
func (c *capture) WithAttrs([]slog.Attr) slog.Handler { return c }
func (c *capture) WithGroup(string) slog.Handler      { return c }

type res struct {
	ip   string
	fail bool
	zone string
}

func (r *res) ClientIP(fox.Context) (*net.IPAddr, error) {
	if r.fail {
		if r.ip != "" {
			// a resolver may hand back the candidate it rejected together with its error: the error decides
			return &net.IPAddr{IP: net.ParseIP(r.ip)}, errors.New("cannot resolve: candidate rejected")
		}
		return nil, errors.New("cannot resolve")
	}
	return &net.IPAddr{IP: net.ParseIP(r.ip), Zone: r.zone}, nil
}

// text is what the resolver's answer reads like (the address, with its zone when it has one).
func (r *res) text() string { return (&net.IPAddr{IP: net.ParseIP(r.ip), Zone: r.zone}).String() }

type under struct {
	h   http.Header
	log []string
}

func (u *under) Header() http.Header { return u.h }
func (u *under) WriteHeader(c int) {
	u.log = append(u.log, fmt.Sprintf("header %d loc=%q", c, u.h.Get("Location")))
}
func (u *under) Write(b []byte) (int, error) {
	u.log = append(u.log, fmt.Sprintf("body %d", len(b)))
	return len(b), nil
}

// ReadFrom is the io.ReaderFrom fast path of a real net/http response: the writer takes the source over and reports
// the source's error together with what it accepted (the implicit 200 header went out with the first byte).
func (u *under) ReadFrom(src io.Reader) (int64, error) {
	var n int64
	buf := make([]byte, 64)
	for {
		m, err := src.Read(buf)
		if m > 0 {
			u.log = append(u.log, fmt.Sprintf("readfrom %d", m))
			n += int64(m)
		}
		if err == io.EOF {
			return n, nil
		}
		if err != nil {
			return n, err
		}
	}
}

// failSrc delivers one chunk and then fails.
type failSrc struct{ done bool }

func (s *failSrc) Read(b []byte) (int, error) {
	if !s.done {
		s.done = true
		return copy(b, "chunk"), nil
	}
	return 0, errors.New("verif: source failed midway")
}

// FlushError commits the implicit 200 header like net/http does.
func (u *under) FlushError() error {
	u.log = append(u.log, "flush")
	return nil
}

type rawKey struct{}

var ctxTurn int

type behaviour struct {
	name   string
	status int // status expected to be recorded
	do     func(c fox.Context)
	loc    string // Location header expected in the record (DEBUG only)
}

func behaviours() []behaviour {
	var out []behaviour
	for code := 200; code <= 599; code++ {
		code := code
		out = append(out, behaviour{fmt.Sprintf("WriteHeader(%d)", code), code, func(c fox.Context) { c.Writer().WriteHeader(code) }, ""})
	}
	// every 3xx code with a Location header, set directly or through the Redirect helper: the property speaks of 3xx, not
	// of the codes the router itself redirects with
	for code := 300; code <= 399; code++ {
		code := code
		loc := fmt.Sprintf("/see/%d?code=%d", code, code)
		out = append(out, behaviour{fmt.Sprintf("Location header, then WriteHeader(%d)", code), code, func(c fox.Context) { c.SetHeader("Location", loc); c.Writer().WriteHeader(code) }, loc})
		if code <= 308 {
			out = append(out, behaviour{fmt.Sprintf("Redirect(%d) helper", code), code, func(c fox.Context) { _ = c.Redirect(code, loc) }, loc})
		}
	}
	out = append(out,
		behaviour{"implicit 200 via Write", 200, func(c fox.Context) { _, _ = c.Writer().Write([]byte("hi")) }, ""},
		behaviour{"no write at all", 200, func(c fox.Context) {}, ""},
		behaviour{"informational 103 only", 200, func(c fox.Context) { c.Writer().WriteHeader(103) }, ""},
		behaviour{"101 switching protocols", 101, func(c fox.Context) { c.Writer().WriteHeader(101) }, ""},
		behaviour{"redirect 302 with Location", 302, func(c fox.Context) { _ = c.Redirect(302, "http://example.test/elsewhere") }, "http://example.test/elsewhere"},
		behaviour{"redirect 308 with Location", 308, func(c fox.Context) { _ = c.Redirect(308, "/abs/path?x=1") }, "/abs/path?x=1"},
		behaviour{"303 without Location", 303, func(c fox.Context) { c.Writer().WriteHeader(303) }, ""},
		behaviour{"200 with a Location header", 200, func(c fox.Context) { c.SetHeader("Location", "/ignored"); c.Writer().WriteHeader(200) }, ""},
		behaviour{"404 via helper", 404, func(c fox.Context) { _ = c.String(404, "nope") }, ""},
		behaviour{"flush, then WriteHeader(500)", 200, func(c fox.Context) { _ = c.Writer().FlushError(); c.Writer().WriteHeader(500) }, ""},
		behaviour{"flush, then http.Error 503", 200, func(c fox.Context) { _ = c.Writer().FlushError(); http.Error(c.Writer(), "late", 503) }, ""},
		behaviour{"WriteHeader(404), flush, WriteHeader(200)", 404, func(c fox.Context) {
			c.Writer().WriteHeader(404)
			_ = c.Writer().FlushError()
			c.Writer().WriteHeader(200)
		}, ""},
		behaviour{"double WriteHeader 201 then 500", 201, func(c fox.Context) { c.Writer().WriteHeader(201); c.Writer().WriteHeader(500) }, ""},
	)
	// the handler (or an inner middleware) replaces the writer of the context with a recorder of its own over the raw
	// writer, as a compressing or buffering middleware does: the status recorded is the one of the writer in place when
	// the handler returns
	swap := func(c fox.Context) {
		raw, _ := c.Request().Context().Value(rawKey{}).(http.ResponseWriter)
		_, tc := fox.NewTestContext(raw, c.Request())
		c.SetWriter(tc.Writer())
	}
	out = append(out,
		behaviour{"SetWriter(own recorder), then 503 through it", 503, func(c fox.Context) { swap(c); c.Writer().WriteHeader(503) }, ""},
		behaviour{"SetWriter(own recorder), then 418 with a body", 418, func(c fox.Context) { swap(c); _ = c.String(418, "teapot") }, ""},
		behaviour{"SetWriter(own recorder), then redirect 302", 302, func(c fox.Context) { swap(c); _ = c.Redirect(302, "/moved") }, "/moved"},
		behaviour{"SetWriter(own recorder), nothing written", 200, func(c fox.Context) { swap(c) }, ""},
		behaviour{"fast-path copy that fails after a chunk, then http.Error 500", 200, func(c fox.Context) {
			_, _ = io.Copy(c.Writer(), &failSrc{})
			http.Error(c.Writer(), "late", 500)
		}, ""},
		behaviour{"fast-path copy of a whole source, then WriteHeader(404)", 200, func(c fox.Context) {
			_, _ = io.Copy(c.Writer(), strings.NewReader("whole"))
			c.Writer().WriteHeader(404)
		}, ""},
	)
	return out
}

func levelFor(status int) (slog.Level, bool) {
	switch {
	case status >= 200 && status < 300:
		return slog.LevelInfo, true
	case status >= 300 && status < 400:
		return slog.LevelDebug, true
	case status >= 400 && status < 500:
		return slog.LevelWarn, true
	case status >= 500 && status < 600:
		return slog.LevelError, true
	}
	return 0, false // not specified (1xx)
}

type resolverCfg struct {
	name   string
	global *res
	route  *res // nil = inherit; use routeNone for explicit none
	none   bool // explicit nil resolver on the route
}

var remotes = []struct{ addr, ip string }{{"192.0.2.10:5555", "192.0.2.10"}, {"[2001:db8::9]:80", "2001:db8::9"}, {"[fe80::1%eth0]:80", "fe80::1%eth0"}}

type behKey struct{}

var lookupF, lookupPlain *fox.Router

func main() {
	run := kit.Start("C20", rule)
	defer run.Finish()
	log.SetOutput(io.Discard)
	ok, bad := &res{ip: "203.0.113.7"}, &res{fail: true}
	rok := &res{ip: "198.51.100.8"}
	cfgs := []resolverCfg{
		{"no resolver", nil, nil, false},
		{"global ok", ok, nil, false},
		{"global failing", bad, nil, false},
		{"global ok, route override ok", ok, rok, false},
		{"global ok, route override failing", ok, bad, false},
		{"global ok, route override none", ok, nil, true},
		{"no global, route override ok", nil, rok, false},
		{"global failing, route override ok", bad, rok, false},
		{"global ok with a zone", &res{ip: "fe80::1", zone: "eth0"}, nil, false},
		{"global failing with a rejected candidate", &res{fail: true, ip: "203.0.113.9"}, nil, false},
		{"global ok, route override failing with a rejected candidate", ok, &res{fail: true, ip: "203.0.113.10"}, false},
		{"global ok, route override ok with a zone", ok, &res{ip: "fe80::2", zone: "wlan0"}, false},
	}
	behs := behaviours()
	mins := []slog.Level{slog.LevelDebug - 4, slog.LevelInfo, slog.LevelWarn, slog.LevelError}
	for ci0 := 0; ci0 < len(cfgs)*len(mins); ci0++ {
		ci, cfg := ci0%len(cfgs), cfgs[ci0%len(cfgs)]
		cap := &capture{min: mins[ci0/len(cfgs)]}
		// the handler's level may change after the middleware was built (a slog.LevelVar turned down at run time): what
		// counts is the level at the time of the request. Every other configuration starts two levels higher.
		runtimeMin := cap.min
		if ci0%2 == 1 {
			cap.min = runtimeMin + 8
		}
		var opts []fox.GlobalOption
		opts = append(opts, fox.WithMiddleware(fox.LoggerWithHandler(cap)))
		if cfg.global != nil {
			opts = append(opts, fox.WithClientIPResolver(cfg.global))
		}
		special := func(c fox.Context) {
			if b, _ := c.Request().Context().Value(behKey{}).(*behaviour); b != nil {
				b.do(c)
			}
		}
		opts = append(opts, fox.WithNoRouteHandler(special), fox.WithNoMethodHandler(special), fox.WithOptionsHandler(special))
		f, err := fox.New(opts...)
		if err != nil {
			run.Inconclusive("fox.New: %v", err)
			return
		}
		plain, _ := fox.New(append(opts[1:], fox.WithMiddleware(func(n fox.HandlerFunc) fox.HandlerFunc { return n }))...)
		var ro []fox.RouteOption
		if cfg.route != nil {
			ro = append(ro, fox.WithClientIPResolver(cfg.route))
		}
		if cfg.none {
			ro = append(ro, fox.WithClientIPResolver(nil))
		}
		for _, r := range []*fox.Router{f, plain} {
			r.MustHandle("GET", "/r/{id}", special, ro...)
			r.MustHandle("POST", "/only-post", special, ro...)
			r.MustHandle("GET", "/slash/", special, append(append([]fox.RouteOption(nil), ro...), fox.WithRedirectTrailingSlash(true))...)
		}
		// manual dispatch: a router without the router-wide Logger whose route carries the Logger as its own middleware;
		// an alias route looks the target up (Router.Lookup with the request's writer) and runs the route's middleware chain
		// on the context Lookup returned
		lookupF, _ = fox.New(opts[1:]...)
		lookupPlain, _ = fox.New(opts[1:]...)
		for i, r := range []*fox.Router{lookupF, lookupPlain} {
			r := r
			tro := append([]fox.RouteOption(nil), ro...)
			if i == 0 {
				tro = append(tro, fox.WithMiddleware(fox.LoggerWithHandler(cap)))
			}
			r.MustHandle("GET", "/r/{id}", special, tro...)
			r.MustHandle("GET", "/alias/{id}", func(c fox.Context) {
				_ = c.RemoteIP() // as any middleware or handler may do on its own context
				req2 := c.Request().Clone(c.Request().Context())
				req2.URL = &url.URL{Path: "/r/" + c.Param("id"), RawQuery: c.Request().URL.RawQuery}
				if rte, cc, tsr := r.Lookup(c.Writer(), req2); rte != nil && !tsr {
					rte.HandleMiddleware(cc)
					cc.Close()
				}
			})
		}
		cap.min = runtimeMin
		for bi, b := range behs {
			// the redirect follows a route request directly: it is served from the pooled context that request just released
			for ki, kind := range []string{"route", "redirect", "noroute", "nomethod", "options", "route-via-lookup", "route-escaped", "route-via-direct-lookup"} {
				if kind == "redirect" && bi%8 != 0 {
					continue // the internal redirect handler has a single behaviour
				}
				// consecutive requests come from different remote addresses (also those of different kinds for one behaviour)
				rm := remotes[(bi+ci+ki)%len(remotes)]
				one(run, f, plain, cap, cfg, b, kind, rm.addr, rm.ip)
			}
		}
	}
	panics(run)
	concurrent(run)
}

type ccapture struct {
	mu   sync.Mutex
	recs []rec
}

func (c *ccapture) Enabled(context.Context, slog.Level) bool { return true }
func (c *ccapture) Handle(_ context.Context, r slog.Record) error {
	x := rec{level: r.Level, msg: r.Message, attrs: map[string]string{}}
	r.Attrs(func(a slog.Attr) bool { x.attrs[a.Key] = a.Value.String(); return true })
	c.mu.Lock()
	c.recs = append(c.recs, x)
	c.mu.Unlock()
	return nil
}
func (c *ccapture) WithAttrs([]slog.Attr) slog.Handler { return c }
func (c *ccapture) WithGroup(string) slog.Handler      { return c }

type hdrResolver struct{}

func (hdrResolver) ClientIP(c fox.Context) (*net.IPAddr, error) {
	runtime.Gosched() // resolvers may be slow: other requests get to run in between
	ip := net.ParseIP(c.Header("X-IP"))
	if ip == nil {
		return nil, errors.New("no ip")
	}
	return &net.IPAddr{IP: ip}, nil
}

// concurrent: every record describes ONE request. Requests that overlap in time each encode an id in their path,
// status, host, client IP and Location; every record emitted must be consistent with the single request its path
// names, and every request must have produced exactly one record.
func concurrent(run *kit.Run) {
	cap := &ccapture{}
	f, err := fox.New(fox.WithMiddleware(fox.LoggerWithHandler(cap)), fox.WithClientIPResolver(hdrResolver{}))
	if err != nil {
		run.Inconclusive("fox.New: %v", err)
		return
	}
	statusOf := func(id int) int { return []int{200, 201, 204, 301, 302, 307, 400, 404, 418, 500, 503, 300, 303, 304, 305, 308, 399}[id%17] }
	f.MustHandle("GET", "/c/{id}", func(c fox.Context) {
		id, _ := strconv.Atoi(c.Param("id"))
		st := statusOf(id)
		if st >= 300 && st < 400 {
			c.SetHeader("Location", fmt.Sprintf("/loc/%d", id))
		}
		c.Writer().WriteHeader(st)
		runtime.Gosched()
	})
	workers := 4 * runtime.GOMAXPROCS(0)
	per := run.Pick(300, 60000)
	var wg sync.WaitGroup
	for g := 0; g < workers; g++ {
		wg.Add(1)
		go func(g int) {
			defer wg.Done()
			for i := 0; i < per; i++ {
				id := g*per + i
				req := &http.Request{Method: "GET", Host: fmt.Sprintf("h%d.test", id), URL: &url.URL{Path: fmt.Sprintf("/c/%d", id)},
					Header: http.Header{"X-Ip": {fmt.Sprintf("10.%d.%d.%d", (id>>16)&255, (id>>8)&255, id&255)}}, RemoteAddr: "192.0.2.1:9", Proto: "HTTP/1.1", ProtoMajor: 1, ProtoMinor: 1}
				f.ServeHTTP(&under{h: http.Header{}}, req)
			}
		}(g)
	}
	wg.Wait()
	total := workers * per
	seen := make(map[int]int, total)
	for _, r := range cap.recs {
		id, err := strconv.Atoi(strings.TrimPrefix(r.attrs["path"], "/c/"))
		if err != nil {
			run.Violate("concurrent-record|path", fmt.Sprintf("a record carries path %q, no request had it", r.attrs["path"]), nil)
			continue
		}
		seen[id]++
		st := statusOf(id)
		lvl, _ := levelFor(st)
		wantLoc := ""
		if st >= 300 && st < 400 {
			wantLoc = fmt.Sprintf("/loc/%d", id)
		}
		wantIP := fmt.Sprintf("10.%d.%d.%d", (id>>16)&255, (id>>8)&255, id&255)
		if r.attrs["status"] != fmt.Sprint(st) || r.attrs["host"] != fmt.Sprintf("h%d.test", id) || r.attrs["method"] != "GET" || r.level != lvl || r.msg != wantIP || r.attrs["location"] != wantLoc {
			run.Violate("concurrent-record|mixed", fmt.Sprintf("with %d requests in flight, the record for path %s mixes values of other requests: level=%s msg=%q attrs=%v; that request has status %d (level %s), host h%d.test, client ip %s, location %q",
				workers, r.attrs["path"], r.level, r.msg, r.attrs, st, lvl, id, wantIP, wantLoc), nil)
		}
	}
	for id := 0; id < total; id++ {
		if seen[id] != 1 {
			run.Violate("concurrent-record|count", fmt.Sprintf("request %d produced %d records (with %d requests in flight)", id, seen[id], workers), nil)
			break
		}
	}
	run.Case("concurrent-records", true)
	run.Eval(int64(total))
	run.Count("concurrent_requests_with_one_consistent_record_each", int64(total))
	run.Count("concurrent_goroutines", int64(workers))
}

func one(run *kit.Run, f, plain *fox.Router, cap *capture, cfg resolverCfg, b behaviour, kind, remote, remoteIP string) {
	id := fmt.Sprintf("%s|%s|%s|%s|min=%s", cfg.name, b.name, kind, remote, cap.min)
	run.Case(id, true)
	method, path := "GET", "/r/42"
	rawPath, recPath := "", ""
	switch kind {
	case "route-via-lookup":
		f, plain = lookupF, lookupPlain
		path, recPath = "/alias/42", "/r/42"
	case "route-via-direct-lookup":
		f, plain = lookupF, lookupPlain
	case "route-escaped":
		// the wire form /r/4%32: net/url keeps the escaped form next to the decoded path; the record names the path
		rawPath = "/r/4%32"
	case "noroute":
		path = "/missing"
	case "nomethod":
		path = "/only-post"
	case "options":
		method, path = "OPTIONS", "/only-post"
	case "redirect":
		path = "/slash"
	}
	mk := func() (*http.Request, *under, *bool) {
		done := false
		bb := b
		inner := bb.do
		bb.do = func(c fox.Context) { inner(c); done = true }
		if kind == "redirect" {
			done = true
		}
		req := &http.Request{Method: method, Host: "example.test", URL: &url.URL{Path: path, RawPath: rawPath, RawQuery: "z=1"}, Header: http.Header{}, RemoteAddr: remote, Proto: "HTTP/1.1", ProtoMajor: 1, ProtoMinor: 1}
		u := &under{h: http.Header{}}
		// every third request arrives with a context that is already cancelled (the client went away): the record is
		// owed all the same
		base := context.Background()
		if ctxTurn%3 == 2 {
			cctx, cancel := context.WithCancel(base)
			cancel()
			base = cctx
		}
		return req.WithContext(context.WithValue(context.WithValue(base, behKey{}, &bb), rawKey{}, http.ResponseWriter(u))), u, &done
	}
	// 405 and OPTIONS need the options enabled: WithNoMethodHandler/WithOptionsHandler enable them
	ctxTurn++
	req, u, done := mk()
	cap.mu.Lock()
	cap.recs, cap.done = nil, done
	cap.mu.Unlock()
	dispatch := func(r *fox.Router, w http.ResponseWriter, rq *http.Request) {
		if kind != "route-via-direct-lookup" {
			r.ServeHTTP(w, rq)
			return
		}
		// no ServeHTTP at all: the caller looks the route up and runs its middleware chain (which holds the Logger) on the
		// context Lookup returned, with a writer of its own
		_, tc := fox.NewTestContext(w, rq)
		if rte, cc, tsr := r.Lookup(tc.Writer(), rq); rte != nil && !tsr {
			rte.HandleMiddleware(cc)
			cc.Close()
		}
	}
	if run.Guard("panic|"+id, map[string]string{"case": id}, func() { dispatch(f, u, req) }) {
		return
	}
	req2, u2, _ := mk()
	dispatch(plain, u2, req2)
	fail := func(format string, a ...any) {
		run.Violate("record|"+cfg.name+"|"+kind+"|"+firstWords(fmt.Sprintf(format, a...)), fmt.Sprintf("[resolver: %s; behaviour: %s; handler: %s; remote %s] ", cfg.name, b.name, kind, remote)+fmt.Sprintf(format, a...), map[string]string{"case": id})
	}
	if strings.Join(u.log, ";") != strings.Join(u2.log, ";") || fmt.Sprint(u.h) != fmt.Sprint(u2.h) {
		fail("the Logger altered the response: with it the underlying writer saw %v %v, without it %v %v", u.log, u.h, u2.log, u2.h)
	}
	cap.mu.Lock()
	recs := append([]rec(nil), cap.recs...)
	cap.mu.Unlock()
	if cap.min > slog.LevelDebug-4 {
		// a handler that disables the lower levels: exactly the records at or above its level are emitted
		st := b.status
		if kind == "redirect" {
			st = 301
		}
		lvl, specified := levelFor(st)
		if !specified {
			return
		}
		if want := lvl >= cap.min; want != (len(recs) == 1) || len(recs) > 1 {
			fail("handler enabled from %s: %d records emitted for a response with status %d (level %s)", cap.min, len(recs), st, lvl)
		}
		if len(recs) != 1 {
			return
		}
	}
	if len(recs) != 1 {
		fail("%d records emitted for one request", len(recs))
		return
	}
	r := recs[0]
	if !r.after {
		fail("the record was emitted before the wrapped handler returned")
	}
	status, loc := b.status, b.loc
	switch kind {
	case "redirect":
		status, loc = 301, "slash/?z=1"
	}
	if r.attrs["status"] != fmt.Sprint(status) {
		fail("record status=%s, the response status is %d", r.attrs["status"], status)
	}
	if lvl, specified := levelFor(status); specified && r.level != lvl {
		fail("level %s for status %d, expected %s", r.level, status, lvl)
	}
	if recPath != "" {
		path = recPath
	}
	if r.attrs["method"] != method || r.attrs["host"] != "example.test" || r.attrs["path"] != path {
		fail("record method=%q host=%q path=%q, request is %s example.test %s", r.attrs["method"], r.attrs["host"], r.attrs["path"], method, path)
	}
	if _, ok := r.attrs["latency"]; !ok {
		fail("record lacks latency")
	}
	gotLoc, hasLoc := r.attrs["location"]
	if status >= 300 && status < 400 && loc != "" {
		if !hasLoc || gotLoc != loc {
			fail("3xx with a Location header: record location=%q (present=%t), expected %q", gotLoc, hasLoc, loc)
		}
	} else if hasLoc {
		fail("unexpected location attribute %q for status %d", gotLoc, status)
	}
	// message: client ip of the effective resolver, remote address without resolver, "unknown" on failure
	eff := cfg.global
	if kind == "route" || kind == "route-via-lookup" || kind == "route-escaped" || kind == "route-via-direct-lookup" {
		if cfg.route != nil {
			eff = cfg.route
		}
		if cfg.none {
			eff = nil
		}
	}
	want := remoteIP
	if eff != nil {
		want = eff.text()
		if eff.fail {
			want = "unknown"
		}
	}
	if r.msg != want {
		fail("message %q, expected %q", r.msg, want)
	}
	if run.WantSample() {
		run.Sample(map[string]any{"resolver": cfg.name, "behaviour": b.name, "handler": kind, "record": fmt.Sprintf("%s %q %v", r.level, r.msg, r.attrs)})
	}
}

func firstWords(s string) string {
	w := strings.Fields(s)
	if len(w) > 3 {
		w = w[:3]
	}
	return strings.Join(w, " ")
}

// panics: a panic passing through the Logger is not altered (and no record claims the handler returned).
func panics(run *kit.Run) {
	cap := &capture{}
	f, _ := fox.New(fox.WithMiddleware(fox.LoggerWithHandler(cap)))
	vals := []any{"boom", errors.New("boom"), 42, http.ErrAbortHandler, fmt.Errorf("w: %w", http.ErrAbortHandler), &net.OpError{Op: "write", Err: errors.New("broken pipe")}}
	var cur any
	f.MustHandle("GET", "/p", func(c fox.Context) { c.Writer().WriteHeader(202); panic(cur) })
	for i, v := range vals {
		cur = v
		id := fmt.Sprintf("panic-through-logger|%d", i)
		run.Case(id, true)
		cap.mu.Lock()
		cap.recs, cap.done = nil, nil
		cap.mu.Unlock()
		var got any
		func() {
			defer func() { got = recover() }()
			f.ServeHTTP(&under{h: http.Header{}}, &http.Request{Method: "GET", URL: &url.URL{Path: "/p"}, Header: http.Header{}, RemoteAddr: "192.0.2.1:1"})
		}()
		if got != v {
			run.Violate(id, fmt.Sprintf("a panic with %v (%T) passing through the Logger reached the caller as %v (%T)", v, v, got, got), nil)
		}
	}
}
