// C10: patterns are accepted exactly per the grammar and every accepted one is routable.
// Oracles: ref.Grammar (three-valued recogniser written from the README), crash-freedom of every registration
// entry point on arbitrary strings, and routability of each accepted pattern as the only route of a router
// (substitution round trip; exact values when no catch-all is followed by further pattern text).
package main

import (
	"errors"
	"fmt"
	"math/rand/v2"
	"strings"

	"foxverif/kit"
	"foxverif/ref"
	"foxverif/route"

	"github.com/tigerwill90/fox"
)

const rule = "cases = (pattern string, parameter limits): every string over the alphabet {/ { } * a b . -} up to a bounded length (exhaustive), the same for 9 limit combinations at a smaller length, " +
	"grammar-biased random strings with mutations, hostname length edges, arbitrary bytes (crash-freedom); distinct by (string, limits); " +
	"non-trivial when the string contains a wildcard delimiter or a hostname part"

const alphabet = "/{}*ab.-"
const hostAlphabet = "a1-./{}"

type limits struct{ params, key int }

var noLimit = limits{65535, 65535} // the documented defaults (math.MaxUint16)

func newRouter(l limits) *fox.Router {
	var opts []fox.GlobalOption
	if l != noLimit {
		opts = append(opts, fox.WithMaxRouteParams(uint16(l.params)), fox.WithMaxRouteParamKeyBytes(uint16(l.key)))
	}
	f, err := fox.New(opts...)
	if err != nil {
		panic(err)
	}
	return f
}

func noop(fox.Context) {}

func main() {
	run := kit.Start("C10", rule)
	defer run.Finish()
	if run.ReplayIn != "" {
		var c struct {
			Pattern string `json:"pattern"`
			Params  int    `json:"max_params"`
			Key     int    `json:"max_key"`
		}
		if err := kit.LoadReplay(run.ReplayIn, &c); err != nil {
			run.Inconclusive("cannot load replay: %v", err)
			return
		}
		l := limits{c.Params, c.Key}
		if l.params == 0 && l.key == 0 {
			l = noLimit
		}
		one(run, newRouter(l), l, c.Pattern)
		return
	}
	// regression inputs of fixed findings first
	for _, p := range []string{"/*xname}", "/*x", "/a*b{c}", "/*/{a}", "/**{a}", "/*a{b}/c"} {
		one(run, newRouter(noLimit), noLimit, p)
	}
	maxLen := run.Pick(6, 8)
	exhaustive(run, noLimit, maxLen)
	exhaustiveOver(run, noLimit, run.Pick(6, 8), hostAlphabet)
	small := run.Pick(5, 6)
	for _, p := range []int{0, 1, 2} {
		for _, k := range []int{1, 2, 3} {
			exhaustive(run, limits{p, k}, small)
		}
	}
	run.SetExtra("exhaustive_subspace", fmt.Sprintf("all strings over %q up to length %d with default limits, and up to length %d for each of 9 (max params in 0..2) x (max key bytes in 1..3) limit pairs: enumerated completely; plus all strings over the hostname-focused alphabet %q up to length %d", alphabet, maxLen, small, hostAlphabet, run.Pick(6, 8)))
	random(run)
	edges(run)
	tokens(run)
}

// tokens enumerates every concatenation of up to n grammar tokens (longer strings than the byte-level enumeration
// reaches, where the structure - which token follows which - is what matters).
func tokens(run *kit.Run) {
	toks := []string{"/", "a", ".", "{a}", "{b}", "{}", "*{a}", "*{}", "*", "{", "}"}
	n := run.Pick(5, 6)
	run.Parallel(len(toks)*len(toks), func(b int) {
		f := newRouter(noLimit)
		var rec func(s string, k int)
		rec = func(s string, k int) {
			one(run, f, noLimit, s)
			if k == n {
				return
			}
			for _, t := range toks {
				rec(s+t, k+1)
			}
		}
		rec(toks[b/len(toks)]+toks[b%len(toks)], 2)
	})
	run.SetExtra("token_subspace", fmt.Sprintf("every concatenation of 2..%d tokens out of %q: enumerated completely", n, toks))
}

func exhaustive(run *kit.Run, l limits, maxLen int) {
	exhaustiveOver(run, l, maxLen, alphabet)
}

func exhaustiveOver(run *kit.Run, l limits, maxLen int, alphabet string) {
	// split the space by the first two characters
	var prefixes []string
	for i := 0; i < len(alphabet); i++ {
		for j := 0; j < len(alphabet); j++ {
			prefixes = append(prefixes, string(alphabet[i])+string(alphabet[j]))
		}
	}
	run.Parallel(len(prefixes), func(b int) {
		f := newRouter(l)
		buf := []byte(prefixes[b])
		if b == 0 {
			one(run, f, l, "")
			for i := 0; i < len(alphabet); i++ {
				one(run, f, l, string(alphabet[i]))
			}
		}
		var rec func()
		rec = func() {
			one(run, f, l, string(buf))
			if len(buf) == maxLen {
				return
			}
			for i := 0; i < len(alphabet); i++ {
				buf = append(buf, alphabet[i])
				rec()
				buf = buf[:len(buf)-1]
			}
		}
		rec()
	})
}

var pieces = []string{"/", "a", "ab", "{x}", "{yy}", "*{w}", "*{zz}", ".", "-", "com", "{", "}", "*", "a.b", "{a}.", "x{p}", "v1", "id:", "_", "1", "A", "%", "é", "//", "{a/b}", "{a*}", "{a{b}}", "*{a}/*{b}", "{a}/{b}"}

func random(run *kit.Run) {
	n := run.Pick(50000, 5000000)
	const per = 5000
	run.Parallel(n/per, func(b int) {
		r := run.Rand(uint64(100 + b))
		f := newRouter(noLimit)
		fl := newRouter(limits{2, 3})
		for i := 0; i < per; i++ {
			var sb strings.Builder
			switch r.IntN(4) {
			case 0: // arbitrary bytes
				k := r.IntN(24)
				for j := 0; j < k; j++ {
					sb.WriteByte(byte(r.IntN(256)))
				}
			default:
				if r.IntN(3) == 0 {
					sb.WriteString([]string{"a.com", "{s}.b.c", "x.{t}", "a-b.c0m", "a..b", ".a", "a.", "-a", "a-", "1.2", "a_b.c", "*{h}.com", "a{p}.com", "{p}a.com", "{s}.{t}.com", "{a}.{b}", "1-1", "10-0.0-9", "x{a}.y{b}.z"}[r.IntN(19)])
				}
				k := 1 + r.IntN(8)
				for j := 0; j < k; j++ {
					sb.WriteString(pieces[r.IntN(len(pieces))])
				}
			}
			s := sb.String()
			// mutate
			if len(s) > 0 && r.IntN(3) == 0 {
				k := r.IntN(len(s))
				switch r.IntN(3) {
				case 0:
					s = s[:k] + s[k+1:]
				case 1:
					s = s[:k] + string(alphabet[r.IntN(len(alphabet))]) + s[k:]
				default:
					s = s[:k] + string(alphabet[r.IntN(len(alphabet))]) + s[k+1:]
				}
			}
			if r.IntN(5) == 0 {
				one(run, fl, limits{2, 3}, s)
			} else {
				one(run, f, noLimit, s)
			}
		}
	})
}

func edges(run *kit.Run) {
	f := newRouter(noLimit)
	lab := func(n int) string { return strings.Repeat("a", n) }
	host := func(total int) string {
		// labels of 63 joined by dots up to exactly total bytes
		var parts []string
		left := total
		for left > 0 {
			n := 63
			if left < 64 {
				n = left
			}
			parts = append(parts, lab(n))
			left -= n + 1
		}
		return strings.Join(parts, ".")
	}
	for _, p := range []string{lab(63) + ".com/", lab(64) + ".com/", "a." + lab(63) + "/", "a." + lab(64) + "/", host(255) + "/", host(253) + "/", host(256) + "/x", host(257) + "/",
		lab(63) + "{p}.com/", "{p}." + lab(64) + "/", lab(64) + "{p}.com/", "x." + lab(64) + "{p}/foo", lab(32) + "{p}" + lab(32) + ".com/", lab(31) + "{p}" + lab(32) + ".com/", "{p}" + lab(64) + ".com/", "{p}" + lab(63) + ".com/",
		lab(40) + "{p}" + lab(10) + "{q}" + lab(14) + ".com/", lab(40) + "{p}" + lab(10) + "{q}" + lab(13) + ".com/", host(200) + ".{p}." + lab(64) + "/", host(190) + "." + lab(64) + "{p}/",
		"/" + strings.Repeat("{a}/", 65535), "/" + strings.Repeat("{a}/", 65536), strings.Repeat("{a}.", 120) + "com/" + strings.Repeat("{a}/", 65500), "/" + strings.Repeat("{a}/", 40), "/" + strings.Repeat("x", 5000), "/{" + strings.Repeat("n", 70000) + "}"} {
		one(run, f, noLimit, p)
		run.Count("hostname_length_edge_cases", 1)
	}
}

func hasDelims(s string) bool {
	k := strings.IndexByte(s, '/')
	return strings.ContainsAny(s, "{}*") || k > 0
}

func one(run *kit.Run, f *fox.Router, l limits, p string) {
	rep := map[string]any{"pattern": p, "max_params": l.params, "max_key": l.key}
	if l == noLimit {
		rep = map[string]any{"pattern": p}
	}
	key := fmt.Sprintf("%q|%d|%d", p, l.params, l.key)
	if len(p) > 400 {
		key = fmt.Sprintf("%q...(%d bytes, %d wildcards)|%d|%d", p[:80], len(p), strings.Count(p, "{"), l.params, l.key)
	}
	run.Case(key, hasDelims(p))
	var rte *fox.Route
	var err error
	if run.Guard("newroute-panic|"+key, rep, func() { rte, err = f.NewRoute(p, noop) }) {
		return
	}
	verdict, why := ref.Grammar(p, l.params, l.key)
	accepted := err == nil
	switch verdict {
	case ref.Valid:
		run.Count("grammar_valid", 1)
		if !accepted {
			run.Violate("rejects-valid|"+key, fmt.Sprintf("pattern %q follows the documented grammar but is rejected: %v (limits %+v)", p, err, l), rep)
		}
	case ref.Invalid:
		run.Count("grammar_invalid", 1)
		if accepted {
			run.Violate("accepts-invalid|"+key, fmt.Sprintf("pattern %q violates the documented grammar (%s) but is accepted (limits %+v)", p, why, l), rep)
		}
	default:
		run.Count("grammar_unspecified", 1)
	}
	if !accepted {
		if !errors.Is(err, fox.ErrInvalidRoute) {
			run.Violate("wrong-error|"+key, fmt.Sprintf("pattern %q rejected with %v, expected an error wrapping ErrInvalidRoute", p, err), rep)
		}
		// the other registration entry points must reject it too, without panicking
		run.Guard("register-panic|"+key, rep, func() {
			if _, e := f.Handle("GET", p, noop); e == nil {
				run.Violate("handle-accepts|"+key, fmt.Sprintf("NewRoute rejects %q but Handle accepts it", p), rep)
				_, _ = f.Delete("GET", p)
			}
			_, _ = f.Update("GET", p, noop)
			_, _ = f.Delete("GET", p)
			f.Has("GET", p)
			f.Route("GET", p)
		})
		return
	}
	run.Count("accepted", 1)
	if len(p) > 20000 {
		// length-limit edge cases: only the accept/reject decision and ParamsLen are checked
		if want := len(ref.Tokenize(p).Wildcards()); rte.ParamsLen() != want {
			run.Violate("paramslen|"+key, fmt.Sprintf("accepted pattern of %d bytes: ParamsLen()=%d but it declares %d wildcards", len(p), rte.ParamsLen(), want), rep)
		}
		return
	}
	routable(run, l, p, rte, key, rep)
}

var pathVals = []string{"v", "1", "a-b", "zz", "my report", "caf\u00e9", "a|b^"}
var hostVals = []string{"x", "y1", "q"}
var catchVals = []string{"c", "c/d", "c/d/e"}

func routable(run *kit.Run, l limits, p string, rte *fox.Route, key string, rep any) {
	pat := ref.Tokenize(p)
	wc := pat.Wildcards()
	if rte.ParamsLen() != len(wc) {
		run.Violate("paramslen|"+key, fmt.Sprintf("accepted pattern %q: ParamsLen()=%d but it declares %d wildcard(s) %v", p, rte.ParamsLen(), len(wc), wc), rep)
	}
	if rte.Hostname()+rte.Path() != p || rte.Pattern() != p || (pat.HostLen > 0) != (rte.Hostname() != "") {
		run.Violate("accessors|"+key, fmt.Sprintf("accepted pattern %q: Hostname()=%q Path()=%q Pattern()=%q", p, rte.Hostname(), rte.Path(), rte.Pattern()), rep)
	}
	run.Guard("routable-panic|"+key, rep, func() {
		g := newRouter(l)
		if _, err := g.Handle("GET", p, noop); err != nil {
			run.Violate("handle-rejects|"+key, fmt.Sprintf("NewRoute accepts %q but Handle on an empty router rejects it: %v", p, err), rep)
			return
		}
		if !g.Has("GET", p) || g.Len() != 1 {
			run.Violate("not-registered|"+key, fmt.Sprintf("accepted pattern %q is not reported by Has/Len after Handle", p), rep)
		}
		r := rand.New(rand.NewPCG(uint64(len(p)), 5))
		for k := 0; k < 8; k++ {
			var vals []ref.KV
			for _, t := range pat.Toks {
				switch {
				case t.K == ref.Param && t.Host:
					vals = append(vals, ref.KV{K: t.Name, V: hostVals[(k+r.IntN(3))%len(hostVals)]})
				case t.K == ref.Param:
					vals = append(vals, ref.KV{K: t.Name, V: pathVals[(k+r.IntN(len(pathVals)))%len(pathVals)]})
				case t.K == ref.Catch:
					vals = append(vals, ref.KV{K: t.Name, V: catchVals[(k+r.IntN(3))%len(catchVals)]})
				}
			}
			full, ok := ref.Substitute(pat, vals)
			if !ok {
				return
			}
			// split at the pattern's own host/path boundary: hosts never contain '/'
			hs := strings.IndexByte(full, '/')
			q := route.Req{Method: "GET", Host: full[:hs], Path: full[hs:]}
			got := route.LookupObs(g, q)
			run.Count("routability_probes", 1)
			if got.Pattern != p || got.Tsr {
				run.Violate("not-routable|"+key, fmt.Sprintf("accepted pattern %q, alone in a router, does not route its own instantiation %s (substituted %v): got %s", p, q, vals, got), rep)
				return
			}
			if msg := route.SelfCheck(q, got); msg != "" {
				run.Violate("bad-values|"+key, fmt.Sprintf("accepted pattern %q: values reported for %s do not substitute back: %s (got %v)", p, q, msg, got.Params), rep)
				return
			}
			if !pat.HasInfixCatchAll() && !route.SameParams(got.Params, vals) {
				run.Violate("bad-values|"+key, fmt.Sprintf("accepted pattern %q: request %s was built from %v but %v is reported", p, q, vals, got.Params), rep)
				return
			}
			// inside the transaction that registers the pattern on a router that holds nothing else (its contexts were sized
			// for an empty tree), before anything is committed
			if k == 0 {
				g3 := newRouter(l)
				t3 := g3.Txn(true)
				if _, err := t3.Handle("GET", p, noop); err == nil {
					var o3, o4 route.Obs
					run.Guard("txn-lookup-panic|"+key, rep, func() {
						o3 = route.LookupObs(t3, q)
						if sn := t3.Snapshot(); sn != nil {
							o4 = route.LookupObs(sn, q)
						}
					})
					for name, o := range map[string]route.Obs{"the open transaction that registered it": o3, "a snapshot of that transaction": o4} {
						if o.Pattern != got.Pattern || o.Tsr != got.Tsr || !route.SameParams(o.Params, got.Params) {
							run.Violate("txn-lookup-differs|"+key, fmt.Sprintf("accepted pattern %q: Lookup of %s through %s gives %s, through a router that committed it %s", p, q, name, o, got), rep)
						}
					}
				}
				t3.Abort()
			}
			// the same lookup through a read-only and a write transaction gives the same answer
			var viaRead, viaWrite route.Obs
			_ = g.View(func(t *fox.Txn) error { viaRead = route.LookupObs(t, q); return nil })
			wt := g.Txn(true)
			viaWrite = route.LookupObs(wt, q)
			wt.Abort()
			for name, o := range map[string]route.Obs{"a read-only transaction": viaRead, "a write transaction": viaWrite} {
				if o.Pattern != got.Pattern || o.Tsr != got.Tsr || !route.SameParams(o.Params, got.Params) {
					run.Violate("txn-lookup-differs|"+key, fmt.Sprintf("accepted pattern %q: Lookup of %s through %s gives %s, through the router %s", p, q, name, o, got), rep)
					return
				}
			}
			if len(vals) == 0 {
				break
			}
		}
		if _, err := g.Delete("GET", p); err != nil || g.Len() != 0 {
			run.Violate("not-deletable|"+key, fmt.Sprintf("accepted pattern %q cannot be deleted again: %v", p, err), rep)
		}
		if hasDelims(p) {
			served(run, l, p, pat, key, rep)
		}
	})
	if run.WantSample() && strings.Contains(p, "{") {
		run.Sample(map[string]any{"pattern": p, "accepted": true, "wildcards": wc})
	}
}

// served: routability also holds for the route as the only route LEFT in a router (neighbouring routes registered and
// deleted again before), through ServeHTTP with trailing slashes ignored, where a slash-adjusted request is served
// right before the direct one (same pooled context): the handler must run with the pattern and the values of the
// direct request.
func served(run *kit.Run, l limits, p string, pat *ref.Pattern, key string, rep any) {
	var opts []fox.GlobalOption
	if l != noLimit {
		opts = append(opts, fox.WithMaxRouteParams(uint16(l.params)), fox.WithMaxRouteParamKeyBytes(uint16(l.key)))
	}
	g, err := fox.New(append(opts, fox.WithIgnoreTrailingSlash(true))...)
	if err != nil {
		return
	}
	var gotPattern string
	var gotParams []ref.KV
	calls := 0
	h := func(c fox.Context) {
		calls++
		gotPattern = c.Pattern()
		gotParams = gotParams[:0]
		for prm := range c.Params() {
			gotParams = append(gotParams, ref.KV{K: prm.Key, V: prm.Value})
		}
	}
	if _, err := g.Handle("GET", p, func(fox.Context) { calls += 100 }); err != nil {
		return
	}
	// the route is overridden before it is used: the handler that serves is the one registered last
	if _, err := g.Update("GET", p, h); err != nil {
		run.Violate("update-rejects|"+key, fmt.Sprintf("accepted and registered pattern %q cannot be updated: %v", p, err), rep)
		return
	}
	// neighbours: registered, then deleted again
	hs := strings.IndexByte(p, '/')
	host, rest := p[:hs], p[hs:]
	var nb []string
	if host != "" {
		nb = append(nb, host+".zz"+rest, host+"-zz"+rest, "zz."+p, host+".zz/q", host+rest+"zz")
		if k := strings.LastIndexByte(host, '.'); k > 0 {
			nb = append(nb, host[:k]+rest, host[:k]+"/q")
		}
	} else {
		nb = append(nb, p+"zz", p+"/zz", "zz.com"+p)
		if len(p) > 1 && !strings.ContainsAny(p[len(p)-1:], "{}*") {
			nb = append(nb, p[:len(p)-1])
		}
	}
	var added []string
	for _, q := range nb {
		if _, err := g.Handle("GET", q, func(fox.Context) {}); err == nil {
			added = append(added, q)
		}
	}
	for i := len(added) - 1; i >= 0; i-- {
		if _, err := g.Delete("GET", added[i]); err != nil {
			run.Violate("neighbour-not-deletable|"+key, fmt.Sprintf("pattern %q registered next to %q cannot be deleted again: %v", added[i], p, err), rep)
			return
		}
	}
	w := &route.Response{H: map[string][]string{}}
	for k := 0; k < 2; k++ {
		var vals []ref.KV
		for _, t := range pat.Toks {
			switch {
			case t.K == ref.Param && t.Host:
				vals = append(vals, ref.KV{K: t.Name, V: hostVals[k%len(hostVals)]})
			case t.K == ref.Param:
				vals = append(vals, ref.KV{K: t.Name, V: pathVals[k%len(pathVals)]})
			case t.K == ref.Catch:
				vals = append(vals, ref.KV{K: t.Name, V: catchVals[k%len(catchVals)]})
			}
		}
		full, ok := ref.Substitute(pat, vals)
		if !ok {
			return
		}
		cut := strings.IndexByte(full, '/')
		q := route.Req{Method: "GET", Host: full[:cut], Path: full[cut:]}
		// the slash-adjusted form first (other values), then the direct one
		adj := q
		if strings.HasSuffix(adj.Path, "/") && len(adj.Path) > 1 {
			adj.Path = adj.Path[:len(adj.Path)-1]
		} else {
			adj.Path += "/"
		}
		if !strings.Contains(adj.Path, "//") {
			adj.Path = strings.Replace(adj.Path, "/"+pathVals[k%len(pathVals)], "/other", 1)
			g.ServeHTTP(w, adj.HTTP())
		}
		calls = 0
		g.ServeHTTP(w, q.HTTP())
		run.Count("served_routability_probes", 1)
		if calls != 1 || gotPattern != p {
			run.Violate("not-served|"+key, fmt.Sprintf("accepted pattern %q, the only route left in a router after %d neighbours were registered and deleted, does not serve its own instantiation %s: handler calls=%d pattern=%q", p, len(added), q, calls, gotPattern), rep)
			return
		}
		if msg := route.SelfCheck(q, route.Obs{Pattern: gotPattern, Params: gotParams}); msg != "" {
			run.Violate("bad-values|"+key, fmt.Sprintf("accepted pattern %q served %s (right after the slash-adjusted request %s) with values that do not substitute back: %s (got %v)", p, q, adj, msg, gotParams), rep)
			return
		}
		if !pat.HasInfixCatchAll() && !route.SameParams(gotParams, vals) {
			run.Violate("bad-values|"+key, fmt.Sprintf("accepted pattern %q: request %s (served right after the slash-adjusted request %s) was built from %v but the handler saw %v", p, q, adj, vals, gotParams), rep)
			return
		}
	}
}
