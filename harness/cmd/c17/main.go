// C17: CleanPath returns the canonical path.
// Oracle: split-and-stack reference (ref.CleanPath), idempotence, crash-freedom; exhaustive over a small alphabet up
// to a bounded length, inputs straddling the 128-byte stack buffer, multi-byte runes. (The redirect rule "only for
// paths already in clean form" is monitored in C08's run.) Built with -race so that checkptr is active.
package main

import (
	"fmt"
	"strings"

	"foxverif/kit"
	"foxverif/ref"

	"github.com/tigerwill90/fox"
)

const rule = "cases = input strings: every string over {/ . a %} up to a bounded length (exhaustive), strings of length 120..140 assembled from path pieces (rooted and unrooted, crossing the 128-byte stack buffer), " +
	"strings with multi-byte runes and percent escapes; distinct by string; non-trivial when the string is not already its own clean form"

func main() {
	run := kit.Start("C17", rule)
	defer run.Finish()
	const alphabet = "/.a%"
	maxLen := run.Pick(8, 10)
	one(run, "")
	var prefixes []string
	for i := 0; i < 4; i++ {
		for j := 0; j < 4; j++ {
			prefixes = append(prefixes, string(alphabet[i])+string(alphabet[j]))
		}
	}
	for i := 0; i < 4; i++ {
		one(run, string(alphabet[i]))
	}
	run.Parallel(len(prefixes), func(b int) {
		buf := []byte(prefixes[b])
		var rec func()
		rec = func() {
			one(run, string(buf))
			if len(buf) == maxLen {
				return
			}
			for i := 0; i < 4; i++ {
				buf = append(buf, alphabet[i])
				rec()
				buf = buf[:len(buf)-1]
			}
		}
		rec()
	})
	run.SetExtra("exhaustive_subspace", fmt.Sprintf("every string over %q up to length %d: enumerated completely", alphabet, maxLen))
	pieces := []string{"/", "//", "a", "ab", ".", "..", "/./", "/../", "é", "日本", "%2F", "%2e", "a.b", "...", "x/", "/x", "..a", "a..", " "}
	n := run.Pick(8000, 200000)
	run.Parallel(n/1000, func(b int) {
		r := run.Rand(uint64(b))
		for i := 0; i < 1000; i++ {
			target := 100 + r.IntN(60)
			if r.IntN(4) == 0 {
				target = r.IntN(40)
			}
			var sb strings.Builder
			if r.IntN(2) == 0 {
				sb.WriteByte('/')
			}
			for sb.Len() < target {
				sb.WriteString(pieces[r.IntN(len(pieces))])
			}
			s := sb.String()
			one(run, s)
			// exact lengths around the buffer edge
			for _, l := range []int{126, 127, 128, 129} {
				if len(s) >= l {
					one(run, s[:l])
				}
			}
		}
	})
}

func one(run *kit.Run, p string) {
	var got, again string
	if run.Guard(fmt.Sprintf("panic|%q", p), map[string]string{"input": p}, func() {
		got = fox.CleanPath(p)
		again = fox.CleanPath(got)
	}) {
		return
	}
	want := ref.CleanPath(p)
	run.Case(p, p != want)
	if len(p) >= 120 {
		run.Count("inputs_of_120_bytes_or_more", 1)
	}
	if got != want {
		run.Violate(fmt.Sprintf("wrong|%q", p), fmt.Sprintf("CleanPath(%q) = %q, the split-and-stack reference gives %q", p, got, want), map[string]string{"input": p})
		return
	}
	if again != got {
		run.Violate(fmt.Sprintf("not-idempotent|%q", p), fmt.Sprintf("CleanPath(%q) = %q but CleanPath of that is %q", p, got, again), map[string]string{"input": p})
	}
	if run.WantSample() && p != want && len(p) > 6 {
		run.Sample(map[string]string{"input": p, "clean": got})
	}
}
