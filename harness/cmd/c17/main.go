// C17: CleanPath returns the canonical path.
// Oracle: split-and-stack reference (ref.CleanPath), idempotence, crash-freedom; exhaustive over a small alphabet up
// to a bounded length, inputs straddling the 128-byte stack buffer, multi-byte runes. (The redirect rule "only for
// paths already in clean form" is monitored in C08's run.) Built with -race so that checkptr is active.
package main

import (
	"fmt"
	"net/http"
	"net/url"
	"strings"

	"foxverif/kit"
	"foxverif/ref"

	"github.com/tigerwill90/fox"
)

const rule = "cases = input strings: every string over {/ . a %} up to a bounded length (exhaustive), strings of length 120..140 assembled from path pieces (rooted and unrooted, crossing the 128-byte stack buffer), " +
	"strings with multi-byte runes and percent escapes; distinct by string; non-trivial when the string is not already its own clean form"

func main() {
	run := kit.Start("C17", rule)
	defer run.Finish()
	const alphabet = "/.a%"
	maxLen := run.Pick(9, 12)
	one(run, "")
	var prefixes []string
	for i := 0; i < 4; i++ {
		for j := 0; j < 4; j++ {
			prefixes = append(prefixes, string(alphabet[i])+string(alphabet[j]))
		}
	}
	for i := 0; i < 4; i++ {
		one(run, string(alphabet[i]))
	}
	run.Parallel(len(prefixes), func(b int) {
		buf := []byte(prefixes[b])
		var rec func()
		rec = func() {
			one(run, string(buf))
			if len(buf) == maxLen {
				return
			}
			for i := 0; i < 4; i++ {
				buf = append(buf, alphabet[i])
				rec()
				buf = buf[:len(buf)-1]
			}
		}
		rec()
	})
	longInputs(run)
	redirectGuard(run)
	run.SetExtra("exhaustive_subspace", fmt.Sprintf("every string over %q up to length %d: enumerated completely", alphabet, maxLen))
	pieces := []string{"/", "//", "a", "ab", ".", "..", "/./", "/../", "é", "日本", "%2F", "%2e", "a.b", "...", "x/", "/x", "..a", "a..", " "}
	n := run.Pick(8000, 2000000)
	run.Parallel(n/1000, func(b int) {
		r := run.Rand(uint64(b))
		for i := 0; i < 1000; i++ {
			target := 100 + r.IntN(60)
			if r.IntN(4) == 0 {
				target = r.IntN(40)
			}
			var sb strings.Builder
			if r.IntN(2) == 0 {
				sb.WriteByte('/')
			}
			for sb.Len() < target {
				sb.WriteString(pieces[r.IntN(len(pieces))])
			}
			s := sb.String()
			one(run, s)
			// a long clean prefix followed by the first thing to rewrite: the lazily allocated buffer is first needed
			// beyond the 128-byte stack buffer
			clean := "/" + strings.Repeat("a", 1+r.IntN(9))
			for len(clean) < 118+r.IntN(24) {
				clean += "/" + strings.Repeat(string(rune('a'+r.IntN(3))), 1+r.IntN(9))
			}
			tail := []string{"//b", "/./b", "/../b", "/.", "/..", "//", "/b/../c", "/b/./", "/é//x"}[r.IntN(9)]
			one(run, clean+tail)
			one(run, clean[1:]+tail)
			// exact lengths around the buffer edge
			for _, l := range []int{126, 127, 128, 129} {
				if len(s) >= l {
					one(run, s[:l])
				}
			}
		}
	})
}

// longInputs: lengths around every power of two up to 128 KiB (buffers, pools and size classes change there), rooted
// and unrooted, already clean and with a rewrite at the start, in the middle or at the very end. The same list is
// walked twice, upwards and downwards, so that whatever one call leaves behind is met by shorter and by longer inputs.
func longInputs(run *kit.Run) {
	var lens []int
	for p := 64; p <= 1<<17; p <<= 1 {
		lens = append(lens, p-2, p-1, p, p+1, p+2)
	}
	lens = append(lens, 100, 1000, 3000, 5000, 10000, 70000)
	mk := func(n int, rooted bool, variant int) string {
		var sb strings.Builder
		if rooted {
			sb.WriteByte('/')
		}
		seg := []string{"abcdefg/", "x/", "hello.world/", "é/"}
		for i := 0; sb.Len() < n; i++ {
			sb.WriteString(seg[i%len(seg)])
		}
		s := sb.String()[:n]
		switch variant {
		case 1: // rewrite at the very end
			if n > 4 {
				s = s[:n-3] + "/./"[:3]
			}
		case 2: // rewrite in the middle
			s = s[:n/2] + "//" + s[n/2+2:]
		case 3: // rewrite at the start
			if rooted {
				s = "/../" + s[4:]
			} else {
				s = "./" + s[2:]
			}
		case 4: // ends in a dot-dot element
			if n > 4 {
				s = s[:n-3] + "/.."
			}
		}
		return s
	}
	cases := 0
	for pass := 0; pass < 2; pass++ {
		for i := range lens {
			n := lens[i]
			if pass == 1 {
				n = lens[len(lens)-1-i]
			}
			for _, rooted := range []bool{true, false} {
				for v := 0; v < 5; v++ {
					one(run, mk(n, rooted, v))
					cases++
				}
			}
		}
	}
	// deep nesting followed by runs of "..": down n levels, up m levels, down again, for n and m around the powers of two
	for _, n := range []int{7, 8, 9, 15, 16, 17, 18, 31, 32, 33, 63, 64, 65, 129, 257} {
		for _, m := range []int{1, 7, 8, 9, 15, 16, 17, 18, 31, 32, 33, 64, 65, 300} {
			for _, rooted := range []bool{true, false} {
				down := strings.Repeat("a/", n)
				up := strings.Repeat("../", m)
				pre := ""
				if rooted {
					pre = "/"
				}
				for _, tail := range []string{"", "b", "b/", "..", "b/../c"} {
					one(run, pre+down+up+tail)
					one(run, pre+down+"x/../"+up+down+tail)
					cases += 2
				}
			}
		}
	}
	run.Count("long_inputs", int64(cases))
}

type redirW struct {
	h      http.Header
	status int
}

func (w *redirW) Header() http.Header         { return w.h }
func (w *redirW) Write(b []byte) (int, error) { return len(b), nil }
func (w *redirW) WriteHeader(c int) {
	if w.status == 0 {
		w.status = c
	}
}

// redirectGuard: a trailing-slash redirect is only ever issued for request paths already in clean form.
func redirectGuard(run *kit.Run) {
	f, err := fox.New(fox.WithRedirectTrailingSlash(true))
	if err != nil {
		run.Inconclusive("fox.New: %v", err)
		return
	}
	h := func(fox.Context) {}
	for _, p := range []string{"/foo/{a}/", "/bar/*{rest}/", "/s/t/", "/u/{a}", "/v/w", "/x/{a}/y/", "/z/id:{a}/", "/deep/{a}/{b}/"} {
		f.MustHandle("GET", p, h)
	}
	bases := []string{"/foo/a", "/bar/x/y", "/s/t", "/u/a/", "/v/w/", "/x/a/y", "/z/id:a", "/deep/a/b", "/foo/a/", "/bar/x/y/", "/s/t/"}
	dirt := []string{"", "/", "//", "/.", "/./", "/..", "/../", "/x/..", "/./."}
	n := 0
	for _, b := range bases {
		for _, d1 := range dirt {
			for _, d2 := range dirt {
				for _, where := range []int{0, 1, 2} {
					var p string
					switch where {
					case 0:
						p = b + d1 + d2
					case 1:
						p = d1 + b + d2
					default:
						k := strings.LastIndexByte(strings.TrimSuffix(b, "/"), '/')
						p = b[:k] + d1 + b[k:] + d2
					}
					if p == "" || p[0] != '/' {
						continue
					}
					w := &redirW{h: http.Header{}}
					f.ServeHTTP(w, &http.Request{Method: "GET", URL: &url.URL{Path: p}, Header: http.Header{}, Proto: "HTTP/1.1", ProtoMajor: 1, ProtoMinor: 1})
					n++
					clean := ref.CleanPath(p)
					run.Case("redirect|"+p, p != clean)
					if w.status >= 300 && w.status < 400 {
						run.Count("redirects_observed", 1)
						if p != clean {
							run.Violate(fmt.Sprintf("redirect-unclean|%q", p), fmt.Sprintf("a trailing-slash redirect (status %d, Location %q) was issued for the request path %q, which is not in clean form (%q)", w.status, w.h.Get("Location"), p, clean), map[string]string{"path": p})
						}
					}
				}
			}
		}
	}
	// every path over the alphabet {/ . a} up to 8 bytes (rooted), against wildcard routes of one to four segments with
	// and without a trailing slash: whichever route the slash-adjusted path would match, no redirect for unclean paths
	g, err := fox.New(fox.WithRedirectTrailingSlash(true))
	if err != nil {
		run.Inconclusive("fox.New: %v", err)
		return
	}
	for _, p := range []string{"/{a}/", "/{a}/{b}/", "/{a}/{b}/{c}/", "/{a}/{b}/{c}/{d}/", "/.a/{b}", "/a/{b}", "/{a}/{b}/{c}/{d}/{e}"} {
		g.MustHandle("GET", p, h)
	}
	const al = "/.a"
	maxLen := run.Pick(8, 10)
	buf := []byte{'/'}
	var rec func()
	rec = func() {
		p := string(buf)
		if !strings.Contains(p, "//") || true {
			w := &redirW{h: http.Header{}}
			g.ServeHTTP(w, &http.Request{Method: "GET", URL: &url.URL{Path: p}, Header: http.Header{}, Proto: "HTTP/1.1", ProtoMajor: 1, ProtoMinor: 1})
			n++
			if w.status >= 300 && w.status < 400 {
				run.Count("redirects_observed", 1)
				if clean := ref.CleanPath(p); p != clean {
					run.Violate(fmt.Sprintf("redirect-unclean|%q", p), fmt.Sprintf("a trailing-slash redirect (status %d, Location %q) was issued for the request path %q, which is not in clean form (%q)", w.status, w.h.Get("Location"), p, clean), map[string]string{"path": p})
				}
			}
		}
		if len(buf) == maxLen {
			return
		}
		for i := 0; i < len(al); i++ {
			buf = append(buf, al[i])
			rec()
			buf = buf[:len(buf)-1]
		}
	}
	rec()
	run.Count("redirect_guard_requests", int64(n))
}

func one(run *kit.Run, p string) {
	var got, again string
	if run.Guard(fmt.Sprintf("panic|%q", p), map[string]string{"input": p}, func() {
		got = fox.CleanPath(p)
		again = fox.CleanPath(got)
	}) {
		return
	}
	want := ref.CleanPath(p)
	run.Case(p, p != want)
	if len(p) >= 120 {
		run.Count("inputs_of_120_bytes_or_more", 1)
	}
	if got != want {
		run.Violate(fmt.Sprintf("wrong|%q", p), fmt.Sprintf("CleanPath(%q) = %q, the split-and-stack reference gives %q", p, got, want), map[string]string{"input": p})
		return
	}
	if again != got {
		run.Violate(fmt.Sprintf("not-idempotent|%q", p), fmt.Sprintf("CleanPath(%q) = %q but CleanPath of that is %q", p, got, again), map[string]string{"input": p})
	}
	if run.WantSample() && p != want && len(p) > 6 {
		run.Sample(map[string]string{"input": p, "clean": got})
	}
}
