// C13: middleware is applied exactly per scope and in registration order.
// Oracle: each middleware appends its id to a per-request trace; the trace must equal the list computed from the
// configuration (global entries whose scope includes the handler kind, in registration order, then the route-specific
// ones), for the five handler kinds, Route.Handle, Route.HandleMiddleware and after Update. Concurrent phase under
// the race detector: routes with distinct route-specific middleware created concurrently must keep their own chain.
package main

import (
	"context"
	"fmt"
	"net/http"
	"net/url"
	"sync"

	"foxverif/kit"

	"github.com/tigerwill90/fox"
)

const rule = "cases = (list of global middleware with scope masks, per-route middleware lists, handler kind); all 31^k scope-mask assignments for k<=3 global entries are enumerated, random beyond " +
	"(0-6 global entries incl. plain WithMiddleware and DefaultOptions, 0-3 per route, Update replacing the list; shared-option-value configurations: one Option value per middleware id used globally and on routes and again for a second router); distinct by (configuration, kind); non-trivial when at least one middleware is configured; " +
	"concurrent phase: 16 goroutines creating routes with own middleware on routers with 0-6 global entries"

type traceKey struct{}

func mw(id int) fox.MiddlewareFunc {
	return func(next fox.HandlerFunc) fox.HandlerFunc {
		return func(c fox.Context) {
			if t, _ := c.Request().Context().Value(traceKey{}).(*[]int); t != nil {
				*t = append(*t, id)
			}
			next(c)
		}
	}
}

var kinds = []struct {
	name  string
	scope fox.HandlerScope
}{{"route", fox.RouteHandler}, {"noroute", fox.NoRouteHandler}, {"nomethod", fox.NoMethodHandler}, {"redirect", fox.RedirectHandler}, {"options", fox.OptionsHandler}}

type nullW struct{ h http.Header }

func (w *nullW) Header() http.Header         { return w.h }
func (w *nullW) Write(b []byte) (int, error) { return len(b), nil }
func (w *nullW) WriteHeader(int)             {}

func request(method, path string) (*http.Request, *[]int) {
	t := new([]int)
	r := &http.Request{Method: method, URL: &url.URL{Path: path}, Header: http.Header{}, RemoteAddr: "192.0.2.1:1", Proto: "HTTP/1.1", ProtoMajor: 1, ProtoMinor: 1}
	return r.WithContext(context.WithValue(context.Background(), traceKey{}, t)), t
}

type global struct {
	ID    int              `json:"id"`
	Scope fox.HandlerScope `json:"scope"`
	Plain bool             `json:"plain"` // registered through WithMiddleware (all scopes)
}

type cfg struct {
	Globals  []global `json:"globals"`
	Default  int      `json:"default_options_at"` // position at which DefaultOptions() is applied (-1: not used)
	RouteMws [][]int  `json:"route_mws"`          // per route: ids of its own middleware
	Updated  []int    `json:"updated"`            // route 0 is updated with this list (nil: no update)
	PerRoute bool     `json:"per_route_slash"`    // trailing-slash redirect enabled on the routes only, not router-wide
	// Shared: one option value per middleware id, created once and used wherever that id appears - as a global option
	// and as a route option, on several routes, and again for a second router built after the first one was checked
	Shared bool `json:"shared_option_values,omitempty"`
}

// optCache hands out one fox.Option value per middleware id.
type optCache map[int]fox.Option

func (oc optCache) get(id int) fox.Option {
	if o, ok := oc[id]; ok {
		return o
	}
	o := fox.WithMiddleware(mw(id))
	oc[id] = o
	return o
}

func (c cfg) String() string {
	s := fmt.Sprintf("globals=%v default@%d routes=%v update=%v", c.Globals, c.Default, c.RouteMws, c.Updated)
	if c.Shared {
		s += " shared-option-values"
	}
	return s
}

const handlerID = -1

func build(c cfg, oc optCache) (*fox.Router, error) {
	var opts []fox.GlobalOption
	for i, g := range c.Globals {
		if c.Default == i {
			opts = append(opts, fox.DefaultOptions())
		}
		if g.Plain && oc != nil {
			opts = append(opts, oc.get(g.ID))
		} else if g.Plain {
			opts = append(opts, fox.WithMiddleware(mw(g.ID)))
		} else {
			opts = append(opts, fox.WithMiddlewareFor(g.Scope, mw(g.ID)))
		}
	}
	if c.Default >= len(c.Globals) {
		opts = append(opts, fox.DefaultOptions())
	}
	opts = append(opts, fox.WithNoMethod(true), fox.WithAutoOptions(true))
	if !c.PerRoute {
		opts = append(opts, fox.WithRedirectTrailingSlash(true))
	}
	return fox.New(opts...)
}

func handler(c fox.Context) {
	if t, _ := c.Request().Context().Value(traceKey{}).(*[]int); t != nil {
		*t = append(*t, handlerID)
	}
}

func expected(c cfg, kind fox.HandlerScope, routeMws []int) []int {
	var out []int
	for _, g := range c.Globals {
		if g.Plain || g.Scope&kind != 0 {
			out = append(out, g.ID)
		}
	}
	if kind == fox.RouteHandler {
		out = append(out, routeMws...)
		out = append(out, handlerID)
	}
	return out
}

func same(a, b []int) bool {
	if len(a) != len(b) {
		return false
	}
	for i := range a {
		if a[i] != b[i] {
			return false
		}
	}
	return true
}

func routeOpts(ids []int) []fox.RouteOption { return routeOptsWith(ids, nil) }

func routeOptsWith(ids []int, oc optCache) []fox.RouteOption {
	if len(ids) == 0 {
		return nil
	}
	if oc != nil {
		var out []fox.RouteOption
		for _, id := range ids {
			out = append(out, oc.get(id))
		}
		return out
	}
	ms := make([]fox.MiddlewareFunc, len(ids))
	for i, id := range ids {
		ms[i] = mw(id)
	}
	// registered in two calls when possible: both forms must append
	if len(ms) > 1 {
		return []fox.RouteOption{fox.WithMiddleware(ms[0]), fox.WithMiddleware(ms[1:]...)}
	}
	return []fox.RouteOption{fox.WithMiddleware(ms...)}
}

func check(run *kit.Run, c cfg) {
	if !c.Shared {
		checkPass(run, c, nil, "")
		return
	}
	oc := optCache{}
	checkPass(run, c, oc, "|shared-options-first-router")
	checkPass(run, c, oc, "|shared-options-second-router")
}

func checkPass(run *kit.Run, c cfg, oc optCache, suffix string) {
	id := c.String() + suffix
	routeOpts := func(ids []int) []fox.RouteOption { return routeOptsWith(ids, oc) }
	run.Guard("panic|"+id, c, func() {
		f, err := build(c, oc)
		if err != nil {
			run.Violate("new|"+id, fmt.Sprintf("fox.New rejected a valid middleware configuration: %v\n%s", err, id), c)
			return
		}
		var routes []*fox.Route
		slash := func(o []fox.RouteOption) []fox.RouteOption {
			if c.PerRoute {
				return append(o, fox.WithRedirectTrailingSlash(true))
			}
			return o
		}
		// a route served by ignoring the trailing slash runs the same chain as a direct match
		if _, err := f.Handle("GET", "/ig/", handler, append(routeOpts([]int{300}), fox.WithIgnoreTrailingSlash(true))...); err != nil {
			run.Violate("handle|"+id, fmt.Sprintf("Handle failed: %v", err), c)
			return
		}
		// the routes are static, end in a parameter, or hold an infix catch-all (whose node keeps route copies of its own)
		variant := (len(c.Globals) + len(c.RouteMws) + len(c.Updated)) % 3
		pat := func(i int) string { return fmt.Sprintf([]string{"/r%d", "/r%d/*{x}/end", "/r%d/{p}"}[variant], i) }
		pth := func(i int) string { return fmt.Sprintf([]string{"/r%d", "/r%d/a/b/end", "/r%d/v"}[variant], i) }
		for i, ids := range c.RouteMws {
			rte, err := f.Handle("GET", pat(i), handler, slash(routeOpts(ids))...)
			if err != nil {
				run.Violate("handle|"+id, fmt.Sprintf("Handle failed: %v", err), c)
				return
			}
			routes = append(routes, rte)
		}
		mwsOf := func(i int) []int { return c.RouteMws[i] }
		var held *fox.Route // the route object that Update replaces: it stays what it was
		if c.Updated != nil && len(routes) > 0 {
			held = routes[0]
			rte, err := f.Update("GET", pat(0), handler, slash(routeOpts(c.Updated))...)
			if err != nil {
				run.Violate("update|"+id, fmt.Sprintf("Update failed: %v", err), c)
				return
			}
			routes[0] = rte
			old := mwsOf
			mwsOf = func(i int) []int {
				if i == 0 {
					return c.Updated
				}
				return old(i)
			}
		}
		nonTrivial := len(c.Globals) > 0 || c.Default >= 0
		fail := func(what string, got, want []int) {
			run.Violate("trace|"+what+"|"+id, fmt.Sprintf("%s: middleware trace %v, expected %v (ids in registration order, %d = handler)\nconfiguration: %s", what, got, want, handlerID, id), c)
		}
		serve := func(method, path string) []int {
			r, t := request(method, path)
			f.ServeHTTP(&nullW{http.Header{}}, r)
			return *t
		}
		for i := range routes {
			got, want := serve("GET", pth(i)), expected(c, fox.RouteHandler, mwsOf(i))
			run.Case(id+fmt.Sprintf("|route%d", i), nonTrivial || len(mwsOf(i)) > 0)
			if !same(got, want) {
				fail(fmt.Sprintf("route /r%d", i), got, want)
			}
			// Route.Handle: bare handler; Route.HandleMiddleware: route-specific chain only
			r, t := request("GET", fmt.Sprintf("/r%d", i))
			_, tc := fox.NewTestContext(&nullW{http.Header{}}, r)
			routes[i].Handle(tc)
			if !same(*t, []int{handlerID}) {
				fail(fmt.Sprintf("Route.Handle /r%d", i), *t, []int{handlerID})
			}
			r, t = request("GET", fmt.Sprintf("/r%d", i))
			_, tc = fox.NewTestContext(&nullW{http.Header{}}, r)
			routes[i].HandleMiddleware(tc)
			if want := append(append([]int(nil), mwsOf(i)...), handlerID); !same(*t, want) {
				fail(fmt.Sprintf("Route.HandleMiddleware /r%d", i), *t, want)
			}
			// manual dispatch as documented: look the route up, run its chain on the context the lookup returned (which is
			// bound to that route), through the router and through a read-only transaction
			for li := 0; li < 2; li++ {
				r, t = request("GET", pth(i))
				_, tc = fox.NewTestContext(&nullW{http.Header{}}, r)
				what := "Router.Lookup"
				dispatch := func(rte *fox.Route, cc fox.ContextCloser, tsr bool) {
					if rte == nil || tsr {
						fail(fmt.Sprintf("%s of %s finds no route", what, pth(i)), nil, nil)
						return
					}
					rte.HandleMiddleware(cc)
					cc.Close()
				}
				if li == 0 {
					dispatch(f.Lookup(tc.Writer(), r))
				} else {
					what = "Txn.Lookup"
					_ = f.View(func(txn *fox.Txn) error { dispatch(txn.Lookup(tc.Writer(), r)); return nil })
				}
				if want := append(append([]int(nil), mwsOf(i)...), handlerID); !same(*t, want) {
					fail(fmt.Sprintf("%s then Route.HandleMiddleware on the returned context, /r%d", what, i), *t, want)
				}
			}
		}
		for _, p := range []string{"/ig/", "/ig"} {
			got, want := serve("GET", p), expected(c, fox.RouteHandler, []int{300})
			run.Case(id+"|ignored-slash"+p, nonTrivial)
			if !same(got, want) {
				fail("route /ig/ requested as "+p, got, want)
			}
		}
		if len(routes) > 0 {
			for _, k := range kinds[1:] {
				var got []int
				switch k.name {
				case "noroute":
					got = serve("GET", "/nope")
					// request targets that do not start with a slash end in the no-route handler too, with the same chain
					for _, target := range []string{"nope", "*", "nope/x"} {
						if g2 := serve("GET", target); !same(g2, expected(c, k.scope, nil)) {
							fail("noroute handler for request target "+target, g2, expected(c, k.scope, nil))
						}
					}
				case "nomethod":
					got = serve("PUT", pth(0))
				case "redirect":
					got = serve("GET", pth(0)+"/")
					// the same redirect for a method that keeps its method (308 instead of 301) runs the same chain
					if _, err := f.Handle("POST", "/post-only", handler, slash(nil)...); err == nil || f.Has("POST", "/post-only") {
						if g2 := serve("POST", "/post-only/"); !same(g2, expected(c, k.scope, nil)) {
							fail("redirect handler for a POST request", g2, expected(c, k.scope, nil))
						}
					}
				case "options":
					got = serve("OPTIONS", pth(0))
					// the server-wide form runs the same chain
					if g2 := serve("OPTIONS", "*"); !same(g2, expected(c, k.scope, nil)) {
						fail("options handler for OPTIONS *", g2, expected(c, k.scope, nil))
					}
				}
				want := expected(c, k.scope, nil)
				run.Case(id+"|"+k.name, nonTrivial)
				run.Count("kind_"+k.name, 1)
				if !same(got, want) {
					fail(k.name+" handler", got, want)
				}
			}
		}
		if held != nil {
			// more routes are created after the update, then the held object is used again
			for k := 0; k < 3; k++ {
				_, _ = f.Handle("GET", fmt.Sprintf("/later%d/{x}", k), handler, routeOpts([]int{900 + k})...)
			}
			r, t := request("GET", pth(0))
			_, tc := fox.NewTestContext(&nullW{http.Header{}}, r)
			held.HandleMiddleware(tc)
			want := append(append([]int(nil), c.RouteMws[0]...), handlerID)
			if held.Pattern() != pat(0) || !same(*t, want) {
				fail("the route object replaced by Update (still held by its creator), used after more routes were created", *t, want)
			}
			if held.Pattern() != pat(0) {
				run.Violate("held-route|"+id, fmt.Sprintf("a *Route held since before its replacement now reports pattern %q, it was created for %q", held.Pattern(), pat(0)), c)
			}
		}
		if run.WantSample() && nonTrivial {
			run.Sample(map[string]any{"configuration": id, "expected_route0_trace": expected(c, fox.RouteHandler, mwsOf(0))})
		}
	})
}

func main() {
	run := kit.Start("C13", rule)
	defer run.Finish()
	if run.ReplayIn != "" {
		var c cfg
		if err := kit.LoadReplay(run.ReplayIn, &c); err != nil {
			run.Inconclusive("cannot load replay: %v", err)
			return
		}
		check(run, c)
		return
	}
	// exhaustive scope masks for up to 3 global entries
	masks := make([]fox.HandlerScope, 0, 32)
	for m := 0; m < 32; m++ { // the empty mask too: a middleware scoped to nothing wraps nothing
		masks = append(masks, fox.HandlerScope(m)<<3)
	}
	// masks as callers write them with the complement operator or a catch-all constant: bits outside the five scopes
	// are set too and mean nothing
	masks = append(masks, ^fox.NoRouteHandler, ^fox.RedirectHandler, ^fox.RouteHandler, fox.HandlerScope(0xFF), fox.RouteHandler|1, fox.OptionsHandler|fox.NoMethodHandler|6, fox.HandlerScope(7))
	maxK := run.Pick(2, 3)
	if run.Mode() == "race" {
		maxK = 1
	}
	var cfgs []cfg
	var rec func(cur []global)
	rec = func(cur []global) {
		cfgs = append(cfgs, cfg{Globals: append([]global(nil), cur...), Default: -1, RouteMws: [][]int{{100, 101}, nil}, PerRoute: len(cfgs)%2 == 1})
		if len(cur) == maxK {
			return
		}
		for _, m := range masks {
			rec(append(cur, global{ID: len(cur) + 1, Scope: m}))
		}
	}
	rec(nil)
	run.Parallel(len(cfgs), func(i int) { check(run, cfgs[i]) })
	run.SetExtra("exhaustive_subspace", fmt.Sprintf("all assignments of the 32 scope masks (the empty one included) and of 7 masks with bits outside the five scopes to 0..%d global middleware entries (%d configurations) x 5 handler kinds + Route.Handle + Route.HandleMiddleware: enumerated completely", maxK, len(cfgs)))
	// random beyond
	n := run.Pick(400, 1000000)
	if run.Mode() == "race" {
		n = 100
	}
	run.Parallel(n/20, func(b int) {
		r := run.Rand(uint64(b))
		for i := 0; i < 20; i++ {
			c := cfg{Default: -1, PerRoute: r.IntN(2) == 0}
			ng := r.IntN(7)
			for j := 0; j < ng; j++ {
				c.Globals = append(c.Globals, global{ID: j + 1, Scope: masks[r.IntN(len(masks))], Plain: r.IntN(4) == 0})
			}
			nr := 1 + r.IntN(3)
			for j := 0; j < nr; j++ {
				var ids []int
				for k, m := 0, r.IntN(4); k < m; k++ {
					ids = append(ids, 100+10*j+k)
				}
				c.RouteMws = append(c.RouteMws, ids)
			}
			if r.IntN(3) == 0 {
				// one option value per id, ids of plain global entries reused on routes
				c.Shared = true
				for j := range c.RouteMws {
					for k := range c.RouteMws[j] {
						if ng > 0 && r.IntN(2) == 0 {
							c.RouteMws[j][k] = c.Globals[r.IntN(ng)].ID
						}
					}
				}
				for j := range c.Globals {
					c.Globals[j].Plain = c.Globals[j].Plain || r.IntN(2) == 0
				}
			}
			if r.IntN(3) == 0 {
				c.Updated = []int{}
				for k, m := 0, r.IntN(3); k < m; k++ {
					c.Updated = append(c.Updated, 200+k)
				}
			}
			check(run, c)
		}
	})
	defaults(run)
	concurrent(run)
}

// defaults: DefaultOptions pushes Recovery (route scope) and Logger (all scopes) to the front; they carry no id, so
// the observable rule is that the traced ids keep their relative order and count whatever the position of DefaultOptions.
func defaults(run *kit.Run) {
	for pos := 0; pos <= 3; pos++ {
		c := cfg{Default: pos, PerRoute: pos%2 == 1, RouteMws: [][]int{{100}, nil}, Globals: []global{{ID: 1, Scope: fox.RouteHandler | fox.NoRouteHandler}, {ID: 2, Plain: true}, {ID: 3, Scope: fox.OptionsHandler | fox.RedirectHandler | fox.NoMethodHandler}}}
		check(run, c)
		run.Count("default_options_configurations", 1)
	}
}

func concurrent(run *kit.Run) {
	rounds := run.Pick(200, 20000)
	if run.Mode() != "race" {
		rounds = run.Pick(50, 500)
	}
	for round := 0; round < rounds; round++ {
		ng := round % 7
		c := cfg{Default: -1}
		for j := 0; j < ng; j++ {
			c.Globals = append(c.Globals, global{ID: j + 1, Scope: fox.AllHandlers})
		}
		f, err := build(c, nil)
		if err != nil {
			run.Inconclusive("fox.New: %v", err)
			return
		}
		const G = 16
		routes := make([]*fox.Route, G)
		var wg sync.WaitGroup
		start := make(chan struct{})
		for g := 0; g < G; g++ {
			wg.Add(1)
			go func(g int) {
				defer wg.Done()
				<-start
				var err error
				if g%2 == 0 {
					routes[g], err = f.NewRoute(fmt.Sprintf("/c%d", g), handler, fox.WithMiddleware(mw(1000+g)))
					if err == nil {
						err = f.HandleRoute("GET", routes[g])
					}
				} else {
					routes[g], err = f.Handle("GET", fmt.Sprintf("/c%d", g), handler, fox.WithMiddleware(mw(1000+g), mw(2000+g)))
				}
				if err != nil {
					run.Violate("concurrent-handle", fmt.Sprintf("concurrent route creation failed: %v", err), nil)
				}
			}(g)
		}
		close(start)
		wg.Wait()
		// first use of every fresh route from several goroutines at once: Route.HandleMiddleware (route-specific chain
		// only), Route.Handle (bare handler) and a request through the router
		var uses sync.WaitGroup
		go2 := make(chan struct{})
		for g := 0; g < G; g++ {
			if routes[g] == nil {
				continue
			}
			own := []int{1000 + g}
			if g%2 == 1 {
				own = append(own, 2000+g)
			}
			for k := 0; k < 3; k++ {
				uses.Add(1)
				go func(g, k int, own []int) {
					defer uses.Done()
					<-go2
					r, t := request("GET", fmt.Sprintf("/c%d", g))
					_, tc := fox.NewTestContext(&nullW{http.Header{}}, r)
					var want []int
					what := ""
					switch k {
					case 0, 1:
						routes[g].HandleMiddleware(tc)
						want, what = append(append([]int(nil), own...), handlerID), "Route.HandleMiddleware"
					default:
						routes[g].Handle(tc)
						want, what = []int{handlerID}, "Route.Handle"
					}
					if !same(*t, want) {
						run.Violate("concurrent-first-use|"+what, fmt.Sprintf("%s of route /c%d, used for the first time by several goroutines at once, ran chain %v, expected %v", what, g, *t, want), map[string]int{"route": g})
					}
				}(g, k, own)
			}
		}
		close(go2)
		uses.Wait()
		for g := 0; g < G; g++ {
			own := []int{1000 + g}
			if g%2 == 1 {
				own = append(own, 2000+g)
			}
			want := expected(c, fox.RouteHandler, own)
			r, t := request("GET", fmt.Sprintf("/c%d", g))
			f.ServeHTTP(&nullW{http.Header{}}, r)
			run.Case(fmt.Sprintf("concurrent|%d|%d", round, g), true)
			if !same(*t, want) {
				run.Violate(fmt.Sprintf("concurrent-chain|globals=%d", ng), fmt.Sprintf("route /c%d created concurrently with 15 others on a router with %d global middleware runs chain %v, expected %v", g, ng, *t, want), map[string]int{"globals": ng, "route": g})
			}
		}
	}
	run.Count("concurrent_rounds", int64(rounds))
}
