// C06: reads never wait for writers (dynamic half).
// Oracle: completion signal + blocked-goroutine classifier. A writer is parked at every stage of a write
// transaction's life (including inside Commit, via the verifPoint hooks); every read entry point must then complete;
// if one does not, the goroutine dump must show it parked on the router mutex under a fox frame for a violation
// (a bare watchdog timeout is inconclusive). Converse: writers complete while readers hold snapshots forever.
package main

import (
	"fmt"
	"io"
	"log/slog"
	"net/http"
	"net/url"
	"runtime"
	"sync/atomic"
	"time"

	"foxverif/kit"

	"github.com/tigerwill90/fox"
	"github.com/tigerwill90/fox/clientip"
)

const rule = "cases = (read entry point x stage at which a write transaction is parked x router option set x repetition); the product entry x stage x option set is enumerated completely; entries include handles taken before a commit replaced the tree, a chain of 32 nested nodes, and a snapshot of the parked transaction (deeper chain, more parameters than any published route) handed over to the reader; " +
	"distinct by (entry, stage, option set); non-trivial always (a writer really holds the lock: verified by a concurrent write attempt that must NOT complete while parked)"

var stages = []string{"just-opened", "after-writes", "inside-Updates", "with-snapshot-and-iter", "at-txn.afterLock", "at-commit.beforeStore", "at-commit.afterStore"}

type config struct {
	name string
	opts func() []fox.GlobalOption
}

func discard() slog.Handler { return slog.NewTextHandler(io.Discard, nil) }

var configs = []config{
	{"default", func() []fox.GlobalOption { return nil }},
	{"ignore-slash+405+options", func() []fox.GlobalOption {
		return []fox.GlobalOption{fox.WithIgnoreTrailingSlash(true), fox.WithNoMethod(true), fox.WithAutoOptions(true)}
	}},
	{"redirect-slash+recovery+logger", func() []fox.GlobalOption {
		return []fox.GlobalOption{fox.WithRedirectTrailingSlash(true), fox.WithMiddleware(fox.CustomRecoveryWithLogHandler(discard(), fox.DefaultHandleRecovery), fox.LoggerWithHandler(discard()))}
	}},
	{"clientip+405+scoped-middleware", func() []fox.GlobalOption {
		res, _ := clientip.NewRightmostNonPrivate(clientip.XForwardedForKey)
		return []fox.GlobalOption{fox.WithClientIPResolver(res), fox.WithNoMethod(true), fox.WithAutoOptions(true),
			fox.WithMiddlewareFor(fox.NoRouteHandler|fox.NoMethodHandler|fox.OptionsHandler|fox.RedirectHandler, func(n fox.HandlerFunc) fox.HandlerFunc {
				return func(c fox.Context) { _, _ = c.ClientIP(); n(c) }
			})}
	}},
}

type nullW struct{ h http.Header }

func (w *nullW) Header() http.Header         { return w.h }
func (w *nullW) Write(b []byte) (int, error) { return len(b), nil }
func (w *nullW) WriteHeader(int)             {}

func req(method, host, path string) *http.Request {
	return &http.Request{Method: method, Host: host, URL: &url.URL{Path: path}, Header: http.Header{"X-Forwarded-For": {"8.8.8.8"}}, RemoteAddr: "192.0.2.1:1", Proto: "HTTP/1.1", ProtoMajor: 1, ProtoMinor: 1}
}

func seq(s ...string) func(func(string) bool) {
	return func(y func(string) bool) {
		for _, e := range s {
			if !y(e) {
				return
			}
		}
	}
}

type entry struct {
	name string
	f    func(r *fox.Router)
}

// stale holds reader handles taken on a tree that was replaced afterwards (their context pools are empty, so the
// first use has to allocate a context for a tree that is no longer the published one).
type stale struct {
	it  fox.Iter
	txn *fox.Txn
	cc  fox.ContextCloser
}

var old *stale

const deepKey = "abcdefghijklmnopqrstuvwxyz0123456789"

// handed is a snapshot of the parked writer's transaction, handed over to the reader goroutines (nil at stages where
// the writer has no transaction of its own to share).
var handed atomic.Pointer[fox.Txn]

func handedEntries() []entry {
	wide := "/wide/1/2/3/4/5/6/7"
	return []entry{
		{"snapshot handed over by the writer: Lookup+CloneWith+Clone", func(r *fox.Router) {
			t := handed.Load()
			if t == nil {
				return
			}
			for _, p := range []string{wide, "/s/ab/more/9", "/p/1/c/x"} {
				if rte, cc, _ := t.Lookup(nil, req("GET", "", p)); rte != nil {
					cw := cc.CloneWith(nil, req("GET", "", p))
					_ = cw.Param("a")
					_ = cc.Clone()
					cw.Close()
					cc.Close()
				}
			}
		}},
		{"snapshot handed over by the writer: Has+Route+Reverse+Iter", func(r *fox.Router) {
			t := handed.Load()
			if t == nil {
				return
			}
			t.Has("GET", "/w/new")
			t.Route("GET", "/wide/{a}/{b}/{c}/{d}/{e}/{f}/{g}")
			t.Reverse("GET", "", wide)
			t.Len()
			it := t.Iter()
			for range it.All() {
			}
			for range it.Prefix(seq("GET"), "/deep") {
			}
			for range it.Reverse(seq("GET"), "", wide) {
			}
		}},
	}
}

func takeStale(r *fox.Router) *stale {
	s := &stale{it: r.Iter(), txn: r.Txn(false)}
	_, s.cc, _ = r.Lookup(nil, req("GET", "", "/p/1/c/x"))
	// replace the published tree (more parameters, so pooled contexts cannot be shared)
	r.MustHandle("GET", "/stale/{a}/{b}/{c}/{d}/{e}", func(fox.Context) {})
	return s
}

func staleEntries() []entry {
	return []entry{
		{"stale Iter.Reverse+Routes", func(r *fox.Router) {
			if old == nil {
				return
			}
			for range old.it.Reverse(seq("GET"), "h.com", "/s/a") {
			}
			for range old.it.Routes(seq("GET"), "/s/a") {
			}
			for range old.it.All() {
			}
		}},
		{"stale Txn(false) Reverse+Lookup+Iter", func(r *fox.Router) {
			if old == nil {
				return
			}
			old.txn.Reverse("GET", "", "/p/1/c/x")
			old.txn.Has("GET", "/s/a")
			if _, cc, _ := old.txn.Lookup(nil, req("GET", "h.com", "/s/a")); cc != nil {
				cc.Close()
			}
			for range old.txn.Iter().Reverse(seq("GET"), "", "/s/a") {
			}
		}},
		{"stale Lookup context CloneWith+Clone", func(r *fox.Router) {
			if old != nil && old.cc != nil {
				cw := old.cc.CloneWith(nil, req("GET", "", "/p/1/c/x"))
				_ = cw.Param("id")
				_ = old.cc.Clone()
				// deliberately not closed: every call must allocate from the stale tree's pool again
			}
		}},
	}
}

func entries() []entry {
	serve := func(m, h, p string) func(*fox.Router) {
		return func(r *fox.Router) { r.ServeHTTP(&nullW{http.Header{}}, req(m, h, p)) }
	}
	return []entry{
		{"ServeHTTP direct static", serve("GET", "", "/s/a")},
		{"ServeHTTP direct param+catchall", serve("GET", "", "/p/1/c/x/y")},
		{"ServeHTTP hostname", serve("GET", "h.com:80", "/s/a")},
		{"ServeHTTP trailing slash", serve("GET", "", "/s/a/")},
		{"ServeHTTP trailing slash POST", serve("POST", "", "/t")},
		{"ServeHTTP 404", serve("GET", "", "/nope")},
		{"ServeHTTP through an infix catch-all node", serve("GET", "", "/in/1/2/c")},
		{"Reverse through an infix catch-all node", func(r *fox.Router) { r.Reverse("GET", "", "/in/1/2/b/3") }},
		{"ServeHTTP static below parameter and catch-all siblings", serve("GET", "", "/x/y/z")},
		{"Reverse+Lookup static below parameter and catch-all siblings", func(r *fox.Router) {
			r.Reverse("GET", "", "/x/y")
			if _, cc, _ := r.Lookup(nil, req("GET", "", "/x/y/z")); cc != nil {
				cc.Close()
			}
		}},
		{"ServeHTTP 405", serve("PUT", "", "/s/a")},
		{"ServeHTTP OPTIONS", serve("OPTIONS", "", "/s/a")},
		{"ServeHTTP OPTIONS *", func(r *fox.Router) {
			q := req("OPTIONS", "", "*")
			r.ServeHTTP(&nullW{http.Header{}}, q)
		}},
		{"ServeHTTP handler using Clone/CloneWith/ClientIP", serve("GET", "", "/ctx/9")},
		{"Lookup", func(r *fox.Router) {
			if _, cc, _ := r.Lookup(nil, req("GET", "", "/p/1/c/x")); cc != nil {
				cc.Close()
			}
		}},
		{"Reverse", func(r *fox.Router) { r.Reverse("GET", "h.com", "/s/a") }},
		{"Has", func(r *fox.Router) { r.Has("GET", "/s/a") }},
		{"Route", func(r *fox.Router) { r.Route("GET", "/p/{id}/c/*{rest}") }},
		{"Len", func(r *fox.Router) { r.Len() }},
		{"Stats", func(r *fox.Router) { r.Stats() }},
		{"NewRoute", func(r *fox.Router) { _, _ = r.NewRoute("/new/{x}", func(fox.Context) {}) }},
		{"Iter.All", func(r *fox.Router) {
			for range r.Iter().All() {
			}
		}},
		{"ServeHTTP+Iter.Prefix+Routes in a deep chain", func(r *fox.Router) {
			r.ServeHTTP(&nullW{http.Header{}}, req("GET", "", "/deep/"+deepKey[:30]))
			it := r.Iter()
			for range it.Prefix(seq("GET"), "/deep/abc") {
			}
			for range it.Routes(seq("GET"), "/deep/"+deepKey[:31]) {
			}
			for range it.Reverse(seq("GET"), "", "/deep/"+deepKey[:29]) {
			}
		}},
		{"Iter.Methods+Routes+Reverse+Prefix", func(r *fox.Router) {
			it := r.Iter()
			for range it.Methods() {
			}
			for range it.Routes(seq("GET", "POST"), "/s/a") {
			}
			for range it.Reverse(seq("GET", "POST"), "", "/s/a/") {
			}
			for range it.Prefix(seq("GET"), "/s") {
			}
		}},
		{"Txn(false) reads", func(r *fox.Router) {
			t := r.Txn(false)
			t.Has("GET", "/s/a")
			t.Route("GET", "/s/a")
			t.Reverse("GET", "", "/s/a")
			t.Len()
			if _, cc, _ := t.Lookup(nil, req("GET", "", "/s/a")); cc != nil {
				cc.Close()
			}
			for range t.Iter().All() {
			}
			_ = t.Snapshot()
			t.Commit()
			t.Abort()
		}},
		{"View", func(r *fox.Router) {
			_ = r.View(func(t *fox.Txn) error { t.Has("GET", "/s/a"); return nil })
		}},
	}
}

// states of the published tree at the time the writer is parked
var treeStates = []string{"routes", "never-written", "truncated", "shallow", "verb-truncated"}

func build(cfg config) *fox.Router { return buildState(cfg, "routes") }

func buildState(cfg config, state string) *fox.Router {
	r, err := fox.New(cfg.opts()...)
	if err != nil {
		panic(err)
	}
	if state == "never-written" {
		return r
	}
	if state == "shallow" {
		// a shallow tree whose lookups set aside more alternatives than it is deep: two consecutive levels with a
		// static, a parameter and a catch-all child each; nothing has looked anything up yet when the writer parks
		hh := func(c fox.Context) { c.Writer().WriteHeader(200) }
		for _, p := range []string{"/{a}", "/*{b}", "/x/{c}", "/x/*{d}", "/x/y", "/x/y/{e}", "/x/y/*{f}", "/x/y/z"} {
			r.MustHandle("GET", p, hh)
		}
		return r
	}
	if state == "truncated" {
		defer func() { _ = r.Updates(func(t *fox.Txn) error { return t.Truncate() }) }()
	}
	h := func(c fox.Context) { c.Writer().WriteHeader(200) }
	if state == "verb-truncated" {
		// routes under two verbs of the application's own, one of which is emptied by the very last commit before the
		// experiment (the method root goes away; whatever the tree keeps per verb has just shrunk)
		r.MustHandle("FOO", "/s/a", h)
		r.MustHandle("FOO", "/p/{id}", h)
		r.MustHandle("BAR", "/s/a", h)
		defer func() { _ = r.Updates(func(t *fox.Txn) error { return t.Truncate("FOO") }) }()
	}
	for _, p := range []string{"/s/a", "/s/ab", "/p/{id}/c/*{rest}", "h.com/s/a", "/q/{x}/"} {
		r.MustHandle("GET", p, h)
	}
	r.MustHandle("POST", "/s/a", h)
	r.MustHandle("POST", "/t/", h)
	// routes sharing an infix catch-all node, and - as the very last write before the experiment - a committed write
	// below that node (copy-on-write re-creates it; whatever it derives lazily is derived by the first reader)
	for _, p := range []string{"/in/*{x}/b", "/in/*{x}/c", "/in/*{x}/b/{y}"} {
		r.MustHandle("GET", p, h)
	}
	defer func() { _, _ = r.Update("GET", "/in/*{x}/b", h) }()
	// a chain of more than 25 nested nodes (iterators switch to a heap-allocated stack beyond a fixed depth)
	for i := 1; i <= 32; i++ {
		r.MustHandle("GET", "/deep/"+deepKey[:i], h)
	}
	r.MustHandle("GET", "/ctx/{n}", func(c fox.Context) {
		cl := c.Clone()
		_ = cl.Param("n")
		cw := c.CloneWith(c.Writer(), c.Request())
		cw.Close()
		_, _ = c.ClientIP()
		_ = c.QueryParams()
	})
	return r
}

// park starts a writer that stops at the given stage; it returns a release function (which lets the writer finish
// and waits for it) once the writer is provably parked while holding the lock.
func park(r *fox.Router, stage string) (release func(), ok bool) {
	parked := make(chan struct{})
	resume := make(chan struct{})
	done := make(chan struct{})
	h := func(fox.Context) {}
	writes := func(t *fox.Txn) {
		_, _ = t.Handle("GET", "/w/new", h)
		_, _ = t.Update("GET", "/s/a", h)
		_, _ = t.Delete("GET", "/s/ab")
		_, _ = t.Handle("GET", "/s/ab/more/{z}", h)
		// more parameters than any published route, and a chain deeper than any published one
		_, _ = t.Handle("GET", "/wide/{a}/{b}/{c}/{d}/{e}/{f}/{g}", h)
		for i := 33; i <= 36; i++ {
			_, _ = t.Handle("GET", "/deep/"+deepKey[:i], h)
		}
	}
	handed.Store(nil)
	hook := ""
	switch stage {
	case "at-txn.afterLock":
		hook = "txn.afterLock"
	case "at-commit.beforeStore":
		hook = "commit.beforeStore"
	case "at-commit.afterStore":
		hook = "commit.afterStore"
	}
	var fired atomic.Bool
	if hook != "" {
		fox.VerifSetPoint(func(name string) {
			if name == hook && fired.CompareAndSwap(false, true) {
				close(parked)
				<-resume
			}
		})
	}
	go func() {
		defer close(done)
		switch stage {
		case "just-opened":
			t := r.Txn(true)
			close(parked)
			<-resume
			t.Abort()
		case "after-writes":
			t := r.Txn(true)
			writes(t)
			handed.Store(t.Snapshot())
			close(parked)
			<-resume
			t.Commit()
		case "inside-Updates":
			_ = r.Updates(func(t *fox.Txn) error {
				writes(t)
				handed.Store(t.Snapshot())
				close(parked)
				<-resume
				return nil
			})
		case "with-snapshot-and-iter":
			t := r.Txn(true)
			writes(t)
			it := t.Iter()
			sn := t.Snapshot()
			for range it.All() {
			}
			sn.Has("GET", "/w/new")
			handed.Store(sn)
			close(parked)
			<-resume
			t.Abort()
		default:
			t := r.Txn(true)
			writes(t)
			t.Commit()
		}
	}()
	select {
	case <-parked:
	case <-time.After(20 * time.Second):
		return nil, false
	}
	return func() {
		close(resume)
		<-done
		fox.VerifSetPoint(nil)
	}, true
}

func main() {
	run := kit.Start("C06", rule)
	defer run.Finish()
	if run.Mode() == "gomaxprocs1" {
		runtime.GOMAXPROCS(1)
	}
	reps := run.Pick(50, 5000)
	ents := append(append(entries(), staleEntries()...), handedEntries()...)
	proven := map[string]bool{} // entry points already shown to block: not re-tested (each costs a full watchdog)
	type variant struct {
		cfg   config
		state string
	}
	var variants []variant
	for i, cfg := range configs {
		variants = append(variants, variant{cfg, "routes"})
		if i < 2 {
			// a router nobody has written to yet, and one whose routes were all removed: requests are answered (404) from
			// the published empty tree, they do not wait for the first routes to be committed
			variants = append(variants, variant{config{cfg.name + "/never-written", cfg.opts}, "never-written"}, variant{config{cfg.name + "/truncated", cfg.opts}, "truncated"}, variant{config{cfg.name + "/shallow", cfg.opts}, "shallow"}, variant{config{cfg.name + "/verb-truncated", cfg.opts}, "verb-truncated"})
		}
	}
	for _, vr := range variants {
		cfg := vr.cfg
		for _, stage := range stages {
			r := buildState(cfg, vr.state)
			old = nil
			if vr.state == "routes" {
				old = takeStale(r)
			}
			release, ok := park(r, stage)
			if !ok {
				run.Inconclusive("writer did not reach stage %s (config %s)", stage, cfg.name)
				continue
			}
			// the lock is really held: a second writer must not get through while the first is parked
			second := make(chan struct{})
			go func() {
				_, _ = r.Handle("GET", "/w/second", func(fox.Context) {})
				close(second)
			}()
			released := false
			for _, e := range ents {
				if proven[e.name] {
					continue
				}
				id := fmt.Sprintf("%s|%s|%s", e.name, stage, cfg.name)
				var n atomic.Int64
				ok, done := kit.CompletesCh(8*time.Second, func() {
					defer func() {
						if p := recover(); p != nil {
							run.Violate("panic|"+id, fmt.Sprintf("read entry point %q panicked while a writer was parked at %s (config %s): %v", e.name, stage, cfg.name, p), map[string]string{"entry": e.name, "stage": stage, "config": cfg.name})
						}
					}()
					for i := 0; i < reps; i++ {
						e.f(r)
						n.Add(1)
					}
				})
				run.Eval(n.Load())
				run.Case(id, true)
				if !ok {
					dump := kit.AllStacks()
					if g := kit.BlockedOnMutex(dump, "github.com/tigerwill90/fox."); g != "" {
						proven[e.name] = true
						run.Violate("blocked|"+id, fmt.Sprintf("read entry point %q does not complete while a write transaction is parked at stage %s (config %s): its goroutine waits on a lock/channel inside fox\n%s", e.name, stage, cfg.name, kit.TrimStack(g)),
							map[string]string{"entry": e.name, "stage": stage, "config": cfg.name})
						continue
					}
					// not parked on anything the classifier knows (it may be polling): the deciding observation is made the
					// other way round - the writer is let go, and a read that finishes only now was waiting for it
					select {
					case <-done:
						// merely slow (a starved machine): it got there on its own while the writer was still parked
						run.Count("slow_reads_that_completed_on_their_own", 1)
						continue
					case <-time.After(16 * time.Second):
					}
					release()
					released = true
					select {
					case <-done:
						proven[e.name] = true
						run.Violate("blocked|"+id, fmt.Sprintf("read entry point %q did not complete in %s while a write transaction was parked at stage %s (config %s) and completed as soon as the writer was let go: it waits for the writer without parking on a lock (it spins or polls)", e.name, 24*time.Second, stage, cfg.name),
							map[string]string{"entry": e.name, "stage": stage, "config": cfg.name})
					case <-time.After(30 * time.Second):
						run.Inconclusive("%q did not complete within the watchdog at stage %s (config %s), is not parked on a lock inside fox and did not complete after the writer was released either", e.name, stage, cfg.name)
					}
					break
				}
			}
			if released {
				select {
				case <-second:
				case <-time.After(20 * time.Second):
					run.Inconclusive("queued writer did not finish after release at stage %s", stage)
				}
				continue
			}
			select {
			case <-second:
				if stage != "at-commit.afterStore" || true {
					run.Violate("lock-not-held|"+stage+"|"+cfg.name, fmt.Sprintf("a second writer completed while the first write transaction was parked at %s: the stage does not hold the writer lock, the experiment proves nothing", stage), map[string]string{"stage": stage})
				}
			default:
				run.Count("stages_with_lock_verified_held", 1)
			}
			release()
			select {
			case <-second:
			case <-time.After(20 * time.Second):
				run.Inconclusive("queued writer did not finish after release at stage %s", stage)
			}
		}
	}
	converse(run)
	run.SetExtra("exhaustive_subspace", fmt.Sprintf("%d read entry points x %d writer stages x %d option sets, each %d repetitions: the product is enumerated completely", len(ents), len(stages), len(variants), reps))
	run.Sample(map[string]any{"entry": ents[0].name, "stage": stages[0], "config": configs[0].name, "repetitions": reps})
	run.Sample(map[string]any{"entry": ents[10].name, "stage": stages[5], "config": configs[2].name, "repetitions": reps})
}

// converse: writers wait only for other writers - readers holding snapshots forever never block them.
func converse(run *kit.Run) {
	r := build(configs[1])
	hold := make(chan struct{})
	started := make(chan struct{}, 16)
	// a handler that never returns keeps a request in flight (registered before any reader is parked)
	inflight := make(chan struct{})
	r.MustHandle("GET", "/slow", func(c fox.Context) { close(inflight); <-hold })
	go func() {
		t := r.Txn(false)
		started <- struct{}{}
		<-hold
		t.Abort()
	}()
	go func() {
		_ = r.View(func(t *fox.Txn) error { started <- struct{}{}; <-hold; return nil })
	}()
	go func() {
		it := r.Iter()
		for range it.All() {
			started <- struct{}{}
			<-hold
			break
		}
	}()
	// every other iterator of a snapshot, each suspended in its loop body after the first result
	parkedIters := []func(it fox.Iter, body func()){
		func(it fox.Iter, body func()) {
			for range it.Reverse(seq("GET", "POST"), "h.com", "/s/a") {
				body()
				break
			}
		},
		func(it fox.Iter, body func()) {
			for range it.Prefix(seq("GET"), "/s") {
				body()
				break
			}
		},
		func(it fox.Iter, body func()) {
			for range it.Routes(seq("GET", "POST"), "/s/a") {
				body()
				break
			}
		},
		func(it fox.Iter, body func()) {
			for range it.Methods() {
				body()
				break
			}
		},
		func(it fox.Iter, body func()) {
			for range it.Prefix(seq("GET"), "/deep/abc") {
				body()
				break
			}
		},
	}
	for _, pi := range parkedIters {
		pi := pi
		go pi(r.Iter(), func() { started <- struct{}{}; <-hold })
	}
	// and a Lookup context that is never closed
	go func() {
		_, cc, _ := r.Lookup(nil, req("GET", "", "/p/1/c/x"))
		started <- struct{}{}
		<-hold
		if cc != nil {
			cc.Close()
		}
	}()
	for i := 0; i < 3+len(parkedIters)+1; i++ {
		<-started
	}
	go r.ServeHTTP(&nullW{http.Header{}}, req("GET", "", "/slow"))
	<-inflight
	h := func(fox.Context) {}
	ok := kit.Completes(20*time.Second, func() {
		for i := 0; i < 100; i++ {
			_, _ = r.Handle("GET", fmt.Sprintf("/conv/%d", i), h)
			_, _ = r.Update("GET", "/s/a", h)
			_, _ = r.Delete("GET", fmt.Sprintf("/conv/%d", i))
			_ = r.Updates(func(t *fox.Txn) error { return t.Truncate("POST") })
			if i == 0 {
				// the route whose handler is in flight is itself updated, deleted and registered again
				_, _ = r.Delete("GET", "/slow")
				_, _ = r.Handle("GET", "/slow", h)
				_, _ = r.Update("GET", "/slow", h)
			}
			run.Eval(4)
		}
	})
	run.Case("converse|writers-while-readers-hold-snapshots", true)
	if !ok {
		if g := kit.BlockedAnywhere(kit.AllStacks(), "github.com/tigerwill90/fox."); g != "" {
			run.Violate("writer-blocked-by-reader", "writers do not complete while readers hold a read transaction, a View, suspended iterators of every kind, an open Lookup context and an in-flight request\n"+kit.TrimStack(g), nil)
		} else {
			run.Inconclusive("writers did not complete within the watchdog while readers were parked")
		}
	}
	close(hold)
}
