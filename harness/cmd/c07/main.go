// C07: routing depends only on the registered set, not on its history.
// No reference needed: pairwise comparison of two real routers holding the same set - one after a random mutation
// history (updates, deletions, truncations, re-insertions, aborted transactions), one filled fresh in a random
// order - on probes derived from every pattern involved; plus ALL insertion orders of small sets.
package main

import (
	"fmt"
	"math/rand/v2"
	"net/http"
	"sort"
	"strings"

	"foxverif/gen"
	"foxverif/hist"
	"foxverif/kit"
	"foxverif/ref"
	"foxverif/route"

	"github.com/tigerwill90/fox"
)

const rule = "cases = (router after a random mutation history vs fresh router filled in a random permutation, same registered set and options) x probes derived from every pattern " +
	"of the pool (instantiated, perturbed, all methods + OPTIONS), incl. the identity of the handler that served (must be the currently registered one); a third of the histories are directed transaction stories; plus, for every subset of 2..4 routes of the small pools, every element deleted after two insertion orders compared with a fresh router holding the rest; plus every permutation of sets of <=5 routes from small pools; " +
	"distinct by (final set, option set, probe); non-trivial when the final set has >= 2 routes for the probe's method or the probe is unserved"

type caseFile struct {
	hist.Case
	Opts  []string `json:"opts"`
	Perm  []int    `json:"perm"`
	Seed2 uint64   `json:"probe_seed"`
}

func options(names []string) []fox.GlobalOption {
	var o []fox.GlobalOption
	for _, n := range names {
		switch n {
		case "ignore":
			o = append(o, fox.WithIgnoreTrailingSlash(true))
		case "redirect":
			o = append(o, fox.WithRedirectTrailingSlash(true))
		case "405":
			o = append(o, fox.WithNoMethod(true))
		case "options":
			o = append(o, fox.WithAutoOptions(true))
		}
	}
	return o
}

func main() {
	run := kit.Start("C07", rule)
	defer run.Finish()
	if run.ReplayIn != "" {
		var c caseFile
		if err := kit.LoadReplay(run.ReplayIn, &c); err != nil {
			run.Inconclusive("cannot load replay: %v", err)
			return
		}
		check(run, c)
		return
	}
	n := run.Pick(1500, 2000000)
	const per = 20
	run.Parallel(n/per, func(batch int) {
		r := run.Rand(uint64(batch))
		for i := 0; i < per; i++ {
			c := caseFile{Case: hist.Case{Methods: hist.MethodPool[:3]}, Seed2: r.Uint64()}
			c.Pool = hist.GenPool(r, 6+r.IntN(16), r.IntN(30) == 0)
			if len(c.Pool) == 0 {
				continue
			}
			if i == 7 || i == 16 {
				c.Methods = hist.MethodPool
				hist.GenVerbStory(r, &c.Case)
			} else if i%5 == 4 {
				// part of the pool committed one write at a time, then a transaction that adds, updates and removes a
				// pattern others extend (and some of its extensions) - and is aborted, or committed and followed by a second
				// one that is aborted: what was never committed leaves no trace in the routing
				c.Methods = hist.MethodPool[:1]
				hist.GenPartial(r, &c.Case, 3, 5)
				c.Ops = append(c.Ops, hist.Op{Kind: "begin"})
				hist.GenProgram(r, &c.Case)
				if r.IntN(3) == 0 {
					c.Ops = append(c.Ops, hist.Op{Kind: "commit"}, hist.Op{Kind: "begin"})
					hist.GenProgram(r, &c.Case)
				}
				c.Ops = append(c.Ops, hist.Op{Kind: "abort"})
			} else if i%3 == 2 {
				hist.GenStory(r, &c.Case)
			} else {
				hist.GenOps(r, &c.Case, 30+r.IntN(50), r.IntN(3), false)
			}
			switch r.IntN(3) {
			case 0:
				c.Opts = append(c.Opts, "ignore")
			case 1:
				c.Opts = append(c.Opts, "redirect")
			}
			if r.IntN(2) == 0 {
				c.Opts = append(c.Opts, "405")
			}
			if r.IntN(2) == 0 {
				c.Opts = append(c.Opts, "options")
			}
			c.Perm = r.Perm(4096)[:64]
			check(run, c)
		}
	})
	perms(run)
	deletions(run)
}

// deletions: for every subset of 2..4 patterns of the small pools, every element and two insertion orders, the router
// that registered the subset and then deleted the element is compared with a fresh router holding the rest.
func deletions(run *kit.Run) {
	type job struct {
		pool []string
		set  []string
	}
	var jobs []job
	for _, pool := range small {
		var rec func(start int, cur []string)
		rec = func(start int, cur []string) {
			if len(cur) >= 2 {
				jobs = append(jobs, job{pool, append([]string(nil), cur...)})
			}
			if len(cur) == 4 {
				return
			}
			for i := start; i < len(pool); i++ {
				rec(i+1, append(cur, pool[i]))
			}
		}
		rec(0, nil)
	}
	run.Parallel(len(jobs), func(j int) {
		jb := jobs[j]
		r := rand.New(rand.NewPCG(uint64(j), 5))
		probes := probeSet(r, jb.pool, []string{"GET"})
		opts := [][]string{{"redirect", "405", "options"}, {"ignore"}, {}}[j%3]
		for del := range jb.set {
			var rest []string
			for i, p := range jb.set {
				if i != del {
					rest = append(rest, p)
				}
			}
			fresh, _ := fox.New(options(opts)...)
			ok := true
			for _, p := range rest {
				if _, err := fresh.Handle("GET", p, func(fox.Context) {}); err != nil {
					ok = false
				}
			}
			if !ok {
				continue
			}
			for _, reversed := range []bool{false, true} {
				f, _ := fox.New(options(opts)...)
				order := append([]string(nil), jb.set...)
				if reversed {
					for i, k := 0, len(order)-1; i < k; i, k = i+1, k-1 {
						order[i], order[k] = order[k], order[i]
					}
				}
				built := true
				for _, p := range order {
					if _, err := f.Handle("GET", p, func(fox.Context) {}); err != nil {
						built = false
					}
				}
				if !built {
					continue
				}
				if _, err := f.Delete("GET", jb.set[del]); err != nil {
					run.Violate(fmt.Sprintf("delete-failed|%v|%s", jb.set, jb.set[del]), fmt.Sprintf("a registered route cannot be deleted: %v", err), map[string]any{"set": jb.set, "delete": jb.set[del]})
					continue
				}
				run.Count("insert_then_delete_routers", 1)
				for _, q := range probes {
					a, b := observe(f, q), observe(fresh, q)
					run.Eval(1)
					if !same(a, b) {
						run.Violate(fmt.Sprintf("delete-dependent|%v|-%s|%s", jb.set, jb.set[del], q), fmt.Sprintf("a router that registered %v (in this order) and deleted %s answers differently from a fresh router holding %v\nrequest: %s\nafter the deletion: %s\nfresh:              %s\noptions: %v", order, jb.set[del], rest, q, a, b, opts), map[string]any{"order": order, "delete": jb.set[del], "request": q})
						break
					}
				}
			}
		}
		run.Case(fmt.Sprintf("delete|%v", jb.set), true)
	})
	run.SetExtra("exhaustive_deletions", fmt.Sprintf("every subset of 2..4 routes of %d seven-pattern pools (%d subsets) x every deleted element x two insertion orders: enumerated completely", len(small), len(jobs)))
}

type outcome struct {
	pattern string
	params  []ref.KV
	tsr     bool
	status  int
	allow   string
	loc     string
}

func (o outcome) String() string {
	return fmt.Sprintf("route=%q params=%v tsr=%t status=%d allow=%q location=%q", o.pattern, o.params, o.tsr, o.status, o.allow, o.loc)
}

func observe(f *fox.Router, q route.Req) outcome {
	g := route.LookupObs(f, q)
	w := &route.Response{H: http.Header{}}
	f.ServeHTTP(w, q.HTTP())
	al := strings.Split(w.H.Get("Allow"), ", ")
	sort.Strings(al)
	return outcome{g.Pattern, g.Params, g.Tsr, w.Status, strings.Join(al, ","), w.H.Get("Location")}
}

func same(a, b outcome) bool {
	return a.pattern == b.pattern && a.tsr == b.tsr && a.status == b.status && a.allow == b.allow && a.loc == b.loc && route.SameParams(a.params, b.params)
}

func probeSet(r *rand.Rand, pool, methods []string) []route.Req {
	// the server-wide OPTIONS request depends on which verbs have routes, whatever way the others lost theirs
	out := []route.Req{{Method: "OPTIONS", Path: "*"}}
	ms := append(append([]string(nil), methods...), "OPTIONS", "TRACE")
	for _, p := range pool {
		for k := 0; k < 3; k++ {
			h, path, _ := gen.Instantiate(r, p)
			if k > 0 {
				h, path = gen.Perturb(r, h, path)
			}
			out = append(out, route.Req{Method: ms[r.IntN(len(ms))], Host: h, Path: path})
			if k == 0 {
				out = append(out, route.Req{Method: ms[r.IntN(len(ms))], Host: h, Path: toggle(path)})
			}
		}
	}
	return out
}

func toggle(p string) string {
	if strings.HasSuffix(p, "/") && len(p) > 1 {
		return p[:len(p)-1]
	}
	return p + "/"
}

func check(run *kit.Run, c caseFile) {
	id := fmt.Sprintf("%v|%v|%s", c.Opts, c.Pool, c.Case.String())
	if len(id) > 300 {
		id = id[:300] + fmt.Sprint(len(id), c.Seed2)
	}
	run.Guard("panic|"+id, c, func() {
		a := hist.NewWorld(c.Case, options(c.Opts)...)
		for _, op := range c.Ops {
			a.Apply(op)
		}
		if a.Txn != nil {
			a.Txn.Abort()
		}
		final := a.Committed.Listing()
		// fresh router, random insertion order
		bf, _ := fox.New(options(c.Opts)...)
		order := make([]int, len(final))
		for i := range order {
			order[i] = i
		}
		sort.SliceStable(order, func(i, j int) bool { return c.Perm[i%len(c.Perm)]+i < c.Perm[j%len(c.Perm)]+j })
		for _, i := range order {
			mp := strings.SplitN(final[i], " ", 2)
			if _, err := bf.Handle(mp[0], mp[1], func(fox.Context) {}); err != nil {
				run.Violate("refill|"+id, fmt.Sprintf("a set that exists in one router cannot be registered in a fresh one: %s: %v\nset: %v", final[i], err, final), c)
				return
			}
		}
		r := rand.New(rand.NewPCG(c.Seed2, 11))
		perMethod := map[string]int{}
		for _, l := range final {
			perMethod[strings.SplitN(l, " ", 2)[0]]++
		}
		for _, q := range probeSet(r, c.Pool, c.Methods) {
			*a.Hit = -1
			oa, ob := observe(a.F, q), observe(bf, q)
			// the handler that ran must be the one currently registered for the matched route
			if *a.Hit >= 0 {
				run.Count("served_handler_identity_checked", 1)
				if want, ok := a.Committed.ID(q.Method, oa.pattern); !ok || want != *a.Hit {
					run.Violate("stale-handler|"+id+q.String(), fmt.Sprintf("the handler that served the request is not the one currently registered for the matched route (registration #%d ran, #%d is current)\nrequest: %s\nmatched: %s\nhistory: %s",
						*a.Hit, want, q, oa, c.Case.String()), c)
					return
				}
			}
			run.Case(fmt.Sprintf("%v|%v|%s", c.Opts, final, q), perMethod[q.Method] >= 2 || oa.pattern == "")
			if !same(oa, ob) {
				run.Violate("history-dependent|"+id+q.String(), fmt.Sprintf("two routers with the same routes and options answer differently\nrequest: %s\nafter history: %s\nfresh fill:    %s\nset: %v\noptions: %v\nhistory: %s",
					q, oa, ob, final, c.Opts, c.Case.String()), c)
				return
			}
		}
		fa := strip(fox.VerifFingerprint(a.F.Iter()))
		fb := strip(fox.VerifFingerprint(bf.Iter()))
		if fa == fb {
			run.Count("pairs_with_identical_tree_shape", 1)
		} else {
			run.Count("pairs_with_different_tree_shape_same_answers", 1)
		}
		if run.WantSample() {
			run.Sample(map[string]any{"options": c.Opts, "final_set": final, "history": c.Case.String()})
		}
	})
}

func strip(s string) string {
	var sb strings.Builder
	for _, l := range strings.Split(s, "\n") {
		if i := strings.Index(l, "@0x"); i >= 0 {
			l = l[:i]
		}
		if strings.HasPrefix(l, "depth=") {
			continue
		}
		sb.WriteString(l + "\n")
	}
	return sb.String()
}

var small = [][]string{
	{"/a", "/ab", "/a/b", "/{p}", "/a/{q}", "/*{w}", "/a/"},
	{"/foo", "/foo/", "/foobar", "/foo/{x}", "/foo/*{y}", "/fo", "/foo/bar/"},
	{"a.com/", "a.com/x", "{h}.com/x", "/x", "a.co/x", "a.com/{p}", "/x/"},
	{"/{a}/b", "/{a}/b/", "/{a}/{b}", "/x/b", "/{a}/*{c}", "/{a}/b{z}", "/x/"},
	{"/u/id:{a}", "/u/id:{a}/c", "/u/{b}", "/u/i", "/u/*{w}/c", "/u/", "/u"},
	{"/a/*{x}/b/*{y}/c/foo", "/a/*{x}/b/*{y}/c/bar", "/a/*{x}/b/*{y}/c/foo/baz", "/a/*{x}/b/*{y}/c/", "/a/*{x}/b", "/a/*{x}/b/*{y}/d", "/a/q"},
	{"h.com/x", "h.com.au/x", "h.com/xy", "h.com.au/", "h.co/x", "{s}.com/x", "/x"},
	// hostnames that end in a parameter label and hostnames that continue them
	{"{t}/ping", "{t}.api.com/v1", "{t}.api.com/", "{t}.api/x", "x.{t}/p", "x.{t}.org/p", "/ping"},
	// a hostname and its continuations by a hyphen, a label, a letter
	{"api/v1", "api-int/v1", "api.com/v1", "api/", "apix/v1", "api.{r}/v1", "/v1"},
	// static text next to wildcards whose first byte sorts before '*' or after '{'
	{"/f/*{p}", "/f/$m", "/f/~n", "/f/{q}/x", "/f/", "/f/!o/x", "/f/m"},
}

// perms enumerates every insertion order of every subset of <= 5 routes of the small pools.
func perms(run *kit.Run) {
	type job struct {
		pool []string
		set  []string
	}
	var jobs []job
	maxK := run.Pick(4, 5)
	for _, pool := range small {
		var rec func(start int, cur []string)
		rec = func(start int, cur []string) {
			if len(cur) >= 2 {
				jobs = append(jobs, job{pool, append([]string(nil), cur...)})
			}
			if len(cur) == maxK {
				return
			}
			for i := start; i < len(pool); i++ {
				rec(i+1, append(cur, pool[i]))
			}
		}
		rec(0, nil)
	}
	run.Parallel(len(jobs), func(j int) {
		jb := jobs[j]
		r := rand.New(rand.NewPCG(uint64(j), 3))
		probes := probeSet(r, jb.pool, []string{"GET"})
		opts := [][]string{{"redirect", "405", "options"}, {"ignore"}, {}}[j%3]
		var base []outcome
		var baseOrder []string
		permute(jb.set, func(order []string) {
			f, _ := fox.New(options(opts)...)
			for _, p := range order {
				if _, err := f.Handle("GET", p, func(fox.Context) {}); err != nil {
					return
				}
			}
			run.Count("permutations_built", 1)
			if base == nil {
				baseOrder = append([]string(nil), order...)
				for _, q := range probes {
					base = append(base, observe(f, q))
				}
				return
			}
			for i, q := range probes {
				o := observe(f, q)
				run.Eval(1)
				if !same(o, base[i]) {
					run.Violate(fmt.Sprintf("order-dependent|%v|%s", jb.set, q), fmt.Sprintf("insertion order changes the answer\nrequest: %s\norder %v: %s\norder %v: %s\noptions: %v", q, baseOrder, base[i], order, o, opts), map[string]any{"set": jb.set, "order": order, "request": q})
					return
				}
			}
		})
		run.Case(fmt.Sprintf("perm|%v", jb.set), true)
	})
	run.SetExtra("exhaustive_subspace", fmt.Sprintf("every insertion order of every subset of 2..%d routes of %d seven-pattern pools (%d subsets): enumerated completely", maxK, len(small), len(jobs)))
}

func permute(s []string, f func([]string)) {
	a := append([]string(nil), s...)
	var rec func(k int)
	rec = func(k int) {
		if k == len(a) {
			f(a)
			return
		}
		for i := k; i < len(a); i++ {
			a[k], a[i] = a[i], a[k]
			rec(k + 1)
			a[k], a[i] = a[i], a[k]
		}
	}
	rec(0)
}
