// C04: transactions are atomic and isolated.
// Fault enumeration: every generated transaction program of n operations is executed once per (prefix length k in
// 0..n) x (ending: commit, explicit abort, error returned from Updates, panic of several value kinds inside Updates);
// observers run between every step: the router must show the state before the transaction (isolation), the
// transaction must show the model with its own writes, and after the ending the router shows all writes (commit) or
// none (anything else), the transaction refuses further use, and a new write is admitted (lock released).
// Concurrent half: writers stamp all routes of a fixed key set with one transaction id per commit, readers take ONE
// snapshot and must read equal stamps; stamps of aborted transactions must never be seen.
package main

import (
	"errors"
	"fmt"
	"runtime"
	"strings"
	"sync"
	"sync/atomic"
	"time"

	"foxverif/conc"
	"foxverif/hist"
	"foxverif/kit"

	"github.com/tigerwill90/fox"
)

const rule = "cases = (setup history, transaction program of n write operations, prefix length k<=n, ending in {commit, abort, returned error, panic x 5 value kinds}, managed or unmanaged); " +
	"every prefix of every program is executed with every ending; distinct by (pool, setup, program, k, ending); non-trivial when at least one write of the prefix succeeded; " +
	"six kinds of (setup, program): random, partial pools with directed programs, programs about method roots; endings also include the misuse of another, finished transaction; " +
	"concurrent half: one-shot writes queued behind a committing transaction (no lost update); single-snapshot reads of a key set stamped per committed transaction; Allow headers while transactions flip a path between disjoint method sets; requests while a transaction moves a route between two methods (never 404, never a mixed Allow)"

type caseFile struct {
	hist.Case
	Setup int `json:"setup"` // ops [0:Setup] run directly on the router, the rest is the transaction program
}

var endings = []string{"commit", "abort", "error", "panic-string", "panic-error", "panic-nil", "panic-int", "panic-runtime", "panic-settled-other-txn", "commit-unmanaged", "abort-unmanaged"}

func main() {
	run := kit.Start("C04", rule)
	defer run.Finish()
	if run.ReplayIn != "" {
		var c caseFile
		if err := kit.LoadReplay(run.ReplayIn, &c); err != nil {
			run.Inconclusive("cannot load replay: %v", err)
			return
		}
		check(run, c)
		return
	}
	n := run.Pick(1200, 30000)
	if run.Mode() == "race" {
		n = run.Pick(60, 1500)
	}
	const per = 10
	run.Parallel(n/per, func(batch int) {
		r := run.Rand(uint64(batch))
		for i := 0; i < per; i++ {
			c := caseFile{Case: hist.Case{Methods: hist.MethodPool}}
			c.Pool = hist.GenPool(r, 5+r.IntN(14), false)
			if len(c.Pool) == 0 {
				continue
			}
			// now and then a wide node: some sixty childless leaves under one parent (the tree switches to another edge
			// search above fifty edges), all committed; the program removes, updates and adds leaves under that parent
			if i == 0 && batch%8 == 0 {
				const alphabet = "abcdefghijklmnopqrstuvwxyzABCDEFGHIJKLMNOPQRSTUVWXYZ0123456789"
				c.Methods = hist.MethodPool[:1]
				c.Pool = nil
				wide := 52 + r.IntN(10)
				for b := 0; b < wide; b++ {
					c.Pool = append(c.Pool, "/w/"+alphabet[b:b+1])
				}
				for _, p := range c.Pool {
					c.Ops = append(c.Ops, hist.Op{Kind: "handle", Method: c.Methods[0], Pattern: p})
				}
				c.Pool = append(c.Pool, "/w/~", "/w/{p}", "/w/a/x")
				c.Setup = len(c.Ops)
				for k := 0; k < 5; k++ {
					p := c.Pool[r.IntN(wide)]
					switch r.IntN(4) {
					case 0:
						c.Ops = append(c.Ops, hist.Op{Kind: "update", Method: c.Methods[0], Pattern: p})
					case 1:
						c.Ops = append(c.Ops, hist.Op{Kind: "handle", Method: c.Methods[0], Pattern: c.Pool[wide+r.IntN(3)]})
					default:
						c.Ops = append(c.Ops, hist.Op{Kind: "delete", Method: c.Methods[0], Pattern: p})
					}
				}
				run.Count("wide_node_cases", 1)
				check(run, c)
				continue
			}
			// six kinds of (setup, program), each a sixth of the cases
			switch i % 6 {
			case 1, 4:
				// one method, a random part of the pool registered one commit at a time: the directed program then adds,
				// updates and removes a pattern others extend, and some of its extensions
				c.Methods = hist.MethodPool[:1]
				hist.GenPartial(r, &c.Case, 3, 5)
				c.Setup = len(c.Ops)
				hist.GenProgram(r, &c.Case)
			case 2:
				hist.GenOps(r, &c.Case, 4+r.IntN(10), 0, false)
				c.Setup = len(c.Ops)
				hist.GenProgram(r, &c.Case)
			case 5:
				// every verb has a route or two; the program empties, removes and re-creates method roots between writes
				for _, m := range c.Methods {
					for k := 0; k < 1+r.IntN(2); k++ {
						c.Ops = append(c.Ops, hist.Op{Kind: "handle", Method: m, Pattern: c.Pool[r.IntN(len(c.Pool))]})
					}
				}
				c.Setup = len(c.Ops)
				hist.GenRootProgram(r, &c.Case)
			default:
				hist.GenOps(r, &c.Case, 4+r.IntN(10), 0, false)
				c.Setup = len(c.Ops)
				hist.GenOps(r, &c.Case, c.Setup+2+r.IntN(7), 0, r.IntN(3) == 0)
			}
			check(run, c)
		}
	})
	run.SetExtra("fault_enumeration", "every prefix length k in 0..n of every transaction program x every ending in "+strings.Join(endings, ", ")+": enumerated completely for the generated programs")
	helperPanics(run)
	if run.Mode() == "race" || run.Thorough() {
		concurrent(run)
	}
}

// helperPanics: Router.Handle, Router.Update and their Txn counterparts run caller code while they build the route
// (the factories of the route's middleware): a panic there ends the one-operation transaction like a panic ends a
// managed one - nothing of it is visible, and the next write is admitted.
func helperPanics(run *kit.Run) {
	boom := fox.WithMiddleware(func(next fox.HandlerFunc) fox.HandlerFunc { panic("verif: middleware factory panics") })
	h := func(fox.Context) {}
	type helper struct {
		name string
		do   func(f *fox.Router)
	}
	helpers := []helper{
		{"Router.Handle", func(f *fox.Router) { _, _ = f.Handle("GET", "/hp/new/{id}", h, boom) }},
		{"Router.Update", func(f *fox.Router) { _, _ = f.Update("GET", "/hp/old/{id}", h, boom) }},
		{"Router.Handle after another option", func(f *fox.Router) {
			_, _ = f.Handle("GET", "/hp/new/{id}", h, fox.WithAnnotation("k", 1), boom)
		}},
		{"Txn.Handle inside Updates", func(f *fox.Router) {
			_ = f.Updates(func(txn *fox.Txn) error {
				_, _ = txn.Handle("GET", "/hp/first", h)
				_, _ = txn.Handle("GET", "/hp/new/{id}", h, boom)
				return nil
			})
		}},
		{"Txn.Update inside Updates", func(f *fox.Router) {
			_ = f.Updates(func(txn *fox.Txn) error {
				_, _ = txn.Delete("GET", "/hp/keep")
				_, _ = txn.Update("GET", "/hp/old/{id}", h, boom)
				return nil
			})
		}},
		{"Router.NewRoute (no transaction at all)", func(f *fox.Router) { _, _ = f.NewRoute("/hp/new/{id}", h, boom) }},
	}
	for _, hp := range helpers {
		id := "helper-panic|" + hp.name
		run.Case(id, true)
		f, err := fox.New()
		if err != nil {
			run.Inconclusive("fox.New: %v", err)
			return
		}
		old, _ := f.Handle("GET", "/hp/old/{id}", h)
		keep, _ := f.Handle("GET", "/hp/keep", h)
		before := fox.VerifFingerprint(f.Iter())
		var escaped any
		func() {
			defer func() { escaped = recover() }()
			hp.do(f)
		}()
		if escaped == nil {
			run.Violate(id+"|swallowed", fmt.Sprintf("%s: the panic raised by the middleware factory did not reach the caller", hp.name), nil)
		}
		if got := fox.VerifFingerprint(f.Iter()); got != before || f.Route("GET", "/hp/old/{id}") != old || f.Route("GET", "/hp/keep") != keep || f.Has("GET", "/hp/new/{id}") || f.Has("GET", "/hp/first") || f.Len() != 2 {
			run.Violate(id+"|visible", fmt.Sprintf("%s panicked while building the route, yet the router changed (Len()=%d)", hp.name, f.Len()), nil)
		}
		ok := kit.Completes(20*time.Second, func() { _, _ = f.Handle("GET", "/hp/after", h) })
		if !ok {
			if g := kit.BlockedOnMutex(kit.AllStacks(), "txnWith", "(*Router).Handle"); g != "" {
				run.Violate(id+"|lock-held", fmt.Sprintf("after %s panicked while building the route, a new write is not admitted: writer blocked on the router mutex\n%s", hp.name, kit.TrimStack(g)), nil)
			} else {
				run.Inconclusive("write after %s did not finish within the watchdog but no goroutine is parked on the router mutex", hp.name)
			}
			continue
		}
		if !f.Has("GET", "/hp/after") {
			run.Violate(id+"|later-write-lost", fmt.Sprintf("the write made after %s panicked is not published", hp.name), nil)
		}
	}
	run.Count("helper_panic_experiments", int64(len(helpers)))
}

type marker struct{ s string }

func check(run *kit.Run, c caseFile) {
	prog := c.Ops[c.Setup:]
	id := fmt.Sprintf("%v|%s|%d", c.Pool, c.Case.String(), c.Setup)
	if len(id) > 400 {
		id = id[:400] + fmt.Sprint(len(id))
	}
	for k := 0; k <= len(prog); k++ {
		for _, ending := range endings {
			one(run, c, prog, k, ending, id)
		}
	}
	if run.WantSample() {
		run.Sample(map[string]any{"pool": c.Pool, "setup": hist.Case{Ops: c.Ops[:c.Setup]}.String(), "transaction_program": hist.Case{Ops: prog}.String(), "prefixes": len(prog) + 1, "endings": endings})
	}
}

func one(run *kit.Run, c caseFile, prog []hist.Op, k int, ending, id string) {
	key := fmt.Sprintf("%s|k=%d|%s", id, k, ending)
	replay := map[string]any{"case": c, "k": k, "ending": ending}
	_ = replay
	run.Guard("panic|"+key, c, func() {
		w := hist.NewWorld(c.Case)
		for _, op := range c.Ops[:c.Setup] {
			w.Apply(op)
		}
		before := w.Expect(w.Committed)
		succeeded := 0
		fail := func(class, format string, a ...any) {
			run.Violate(class+"|"+key, fmt.Sprintf("[k=%d ending=%s] ", k, ending)+fmt.Sprintf(format, a...)+fmt.Sprintf("\npool: %v\nsetup: %s\nprogram: %s", c.Pool, hist.Case{Ops: c.Ops[:c.Setup]}.String(), hist.Case{Ops: prog}.String()), c)
		}
		// reading through the transaction (Txn.Iter) resets its copy cache: every other execution leaves the
		// transaction alone between its writes, so that defects which need the cache to survive are not masked
		quiet := (k+len(ending))%2 == 1
		// one committing execution in three never reads through the transaction at all, and is followed by
		// single-operation writes instead of the other after-the-ending checks (see below)
		silent := (k+len(ending))%3 == 0 && strings.HasPrefix(ending, "commit") && k > 0
		body := func(txn *fox.Txn) {
			w.Txn = txn
			w.Pending = w.Committed.Clone()
			for i, op := range prog[:k] {
				np := len(w.Problems)
				w.Apply(op)
				for _, p := range w.Problems[np:] {
					fail("return", "%s", p)
				}
				if w.LastWant == "" && op.Bad == "" {
					succeeded++
				}
				// isolation: the router still shows the state before the transaction
				if got := w.Observe(w.F); got != before {
					fail("isolation", "after step %d (%s) of the open transaction the router no longer shows the committed state\n%s", i, op, hist.Diff(before, got))
					return
				}
				if d := w.RoutingProblem(w.F, w.Committed); d != "" {
					fail("isolation", "after step %d (%s) of the open transaction the router no longer routes like the committed state: %s", i, op, d)
					return
				}
				if silent || quiet && i < k-1 {
					continue
				}
				// the transaction reads its own writes
				if want, got := w.Expect(w.Pending), w.Observe(txn); want != got {
					fail("own-writes", "after step %d (%s) the transaction does not show its own writes\n%s", i, op, hist.Diff(want, got))
					return
				}
				if d := w.RoutingProblem(txn, w.Pending); d != "" {
					fail("own-writes", "after step %d (%s) lookups through the transaction do not follow its own writes: %s", i, op, d)
					return
				}
				run.Count("in_txn_observations", 2)
			}
			// a snapshot of the write transaction is read-only: writing through it, committing or aborting it has no effect
			// on the router, on the parent transaction or on the writer lock
			if k > 0 && !quiet && !silent {
				snap := txn.Snapshot()
				if snap == nil {
					fail("snapshot", "Snapshot() of an open write transaction returned nil")
					return
				}
				writable := false
				if _, err := snap.Handle("GET", "/verif-snap", func(fox.Context) {}); !errors.Is(err, fox.ErrReadOnlyTxn) {
					fail("snapshot-writable", "Handle through a snapshot of a write transaction returned %v instead of ErrReadOnlyTxn", err)
					writable = true
				}
				if _, err := snap.Delete(c.Methods[0], c.Pool[0]); !errors.Is(err, fox.ErrReadOnlyTxn) {
					fail("snapshot-writable", "Delete through a snapshot of a write transaction returned %v instead of ErrReadOnlyTxn", err)
				}
				if err := snap.Truncate(); !errors.Is(err, fox.ErrReadOnlyTxn) {
					fail("snapshot-writable", "Truncate through a snapshot of a write transaction returned %v instead of ErrReadOnlyTxn", err)
				}
				if !writable { // a writable snapshot would release the parent's lock: the process would die on the double unlock
					snap.Commit()
					snap.Abort()
				}
				if got := w.Observe(w.F); got != before {
					fail("snapshot-writable", "using a snapshot of the open transaction changed the router\n%s", hist.Diff(before, got))
				}
				if want, got := w.Expect(w.Pending), w.Observe(txn); want != got {
					fail("snapshot-writable", "using a snapshot of the open transaction changed the transaction\n%s", hist.Diff(want, got))
				}
				run.Count("write_txn_snapshots_exercised", 1)
			}
		}
		var txn *fox.Txn
		var escaped any
		var retErr error
		sentinel := errors.New("verif: abort this transaction")
		switch ending {
		case "commit-unmanaged", "abort-unmanaged":
			txn = w.F.Txn(true)
			body(txn)
			if ending == "commit-unmanaged" {
				txn.Commit()
			} else {
				txn.Abort()
			}
		default:
			// a write transaction that is already finished: using it later panics with ErrSettledTxn, like any misuse
			var finished *fox.Txn
			if ending == "panic-settled-other-txn" {
				finished = w.F.Txn(true)
				finished.Abort()
			}
			func() {
				defer func() { escaped = recover() }()
				retErr = w.F.Updates(func(t *fox.Txn) error {
					txn = t
					body(t)
					switch ending {
					case "abort":
						t.Abort() // explicit abort inside the managed function: the commit that follows must be a no-op
					case "error":
						return sentinel
					case "panic-string":
						panic("verif panic")
					case "panic-error":
						panic(sentinel)
					case "panic-nil":
						panic(nil)
					case "panic-int":
						panic(42)
					case "panic-settled-other-txn":
						finished.Has("GET", "/") // panics: the managed transaction t is still open and must be cleaned up
					case "panic-runtime":
						var m map[string]int
						m["x"] = 1
					}
					return nil
				})
			}()
		}
		committed := strings.HasPrefix(ending, "commit")
		run.Case(key, succeeded > 0)
		run.Count("ending_"+ending, 1)
		// what Updates reports
		switch {
		case strings.HasPrefix(ending, "panic"):
			if escaped == nil {
				fail("panic-swallowed", "a panic inside Updates did not propagate to the caller")
			}
		case ending == "error":
			if retErr != sentinel {
				fail("error-lost", "Updates returned %v instead of the error returned by the function", retErr)
			}
		case ending == "commit":
			if retErr != nil || escaped != nil {
				fail("commit-failed", "Updates returned %v / panicked %v", retErr, escaped)
			}
		}
		// all or nothing
		want := before
		if committed {
			want = w.Expect(w.Pending)
		}
		if got := w.Observe(w.F); got != want {
			fail("atomicity", "after the ending the router shows neither all (commit) nor none (otherwise) of the writes\n%s", hist.Diff(want, got))
		}
		final := w.Committed
		if committed && w.Pending != nil {
			final = w.Pending
		}
		if d := w.RoutingProblem(w.F, final); d != "" {
			fail("atomicity", "after the ending the router does not route like the state it must show (all writes after a commit, none otherwise): %s", d)
		}
		// Commit publishes the transaction's nodes for good: readers created now stay at this version while
		// single-operation writes (Router.Update/Handle/Delete, each a transaction of its own) go through the very
		// nodes the transaction created
		if silent {
			w.Committed, w.Pending, w.Txn = final, nil, nil
			rt0 := w.F.Txn(false)
			defer rt0.Abort()
			it0 := w.F.Iter()
			snapTxn := w.Observe(rt0)
			snapIt := hist.ObserveIter(rt0, it0, c.Methods, w.Universe, nil)
			wrote := 0
			for _, op := range prog[:k] {
				if op.Bad != "" {
					continue
				}
				switch op.Kind {
				case "handle", "handleroute", "update", "updateroute":
					w.Apply(hist.Op{Kind: "update", Method: op.Method, Pattern: op.Pattern})
				case "delete":
					w.Apply(hist.Op{Kind: "handle", Method: op.Method, Pattern: op.Pattern})
				default:
					continue
				}
				wrote++
			}
			for i, p := range c.Pool {
				if i%2 == k%2 {
					w.Apply(hist.Op{Kind: "handle", Method: c.Methods[i%len(c.Methods)], Pattern: p})
					w.Apply(hist.Op{Kind: "delete", Method: c.Methods[(i+1)%len(c.Methods)], Pattern: p})
					wrote += 2
				}
			}
			run.Count("single_writes_after_a_committed_transaction", int64(wrote))
			if got := w.Observe(rt0); got != snapTxn {
				fail("later-writes-visible", "a read-only transaction opened after the Commit changed when later single-operation writes were made\n%s", hist.Diff(snapTxn, got))
			}
			if got := hist.ObserveIter(rt0, it0, c.Methods, w.Universe, nil); got != snapIt {
				fail("later-writes-visible", "an iterator created after the Commit changed when later single-operation writes were made\n%s", hist.Diff(snapIt, got))
			}
			if want, got := w.Expect(w.Committed), w.Observe(w.F); want != got {
				fail("later-writes-lost", "after the single-operation writes that followed the Commit the router does not show their result\n%s", hist.Diff(want, got))
			}
			return
		}
		// the settled write transaction refuses further use
		for name, f := range map[string]func(){
			"Has":      func() { txn.Has("GET", "/") },
			"Route":    func() { txn.Route("GET", "/") },
			"Len":      func() { txn.Len() },
			"Iter":     func() { txn.Iter() },
			"Reverse":  func() { txn.Reverse("GET", "", "/") },
			"Handle":   func() { _, _ = txn.Handle("GET", "/verif-after", func(fox.Context) {}) },
			"Update":   func() { _, _ = txn.Update("GET", "/verif-after", func(fox.Context) {}) },
			"Delete":   func() { _, _ = txn.Delete("GET", "/verif-after") },
			"Truncate": func() { _ = txn.Truncate() },
		} {
			var p any
			func() {
				defer func() { p = recover() }()
				f()
			}()
			if e, ok := p.(error); !ok || !errors.Is(e, fox.ErrSettledTxn) {
				fail("settled-usable", "%s on the settled transaction did not refuse with ErrSettledTxn (recovered %v)", name, p)
			}
		}
		func() {
			defer func() {
				if p := recover(); p != nil {
					fail("settled-usable", "Commit/Abort/Snapshot on a settled transaction panicked: %v", p)
				}
			}()
			txn.Commit()
			txn.Abort()
			if txn.Snapshot() != nil {
				fail("settled-usable", "Snapshot of a settled transaction is not nil")
			}
		}()
		if got := w.Observe(w.F); got != want {
			fail("settled-usable", "using the settled transaction changed the router\n%s", hist.Diff(want, got))
		}
		// the finished handle stays finished while LATER transactions are open: it keeps refusing use, its no-op Commit and
		// Abort do not touch the live transaction, and the live transaction's writes are published
		if ending != "commit-unmanaged" && ending != "abort-unmanaged" {
			old := txn
			var inner string
			done := kit.Completes(20*time.Second, func() {
				defer func() {
					if p := recover(); p != nil {
						inner = fmt.Sprintf("the later transaction panicked: %v", p)
					}
				}()
				err := w.F.Updates(func(t2 *fox.Txn) error {
					if _, err := t2.Handle("GET", "/verif-second-txn", func(fox.Context) {}); err != nil {
						return err
					}
					func() {
						defer func() {
							if e, ok := recover().(error); !ok || !errors.Is(e, fox.ErrSettledTxn) {
								inner = "Has on the finished handle did not refuse with ErrSettledTxn while a later transaction was open"
							}
						}()
						old.Has("GET", "/verif-second-txn")
					}()
					old.Abort()
					old.Commit()
					if !t2.Has("GET", "/verif-second-txn") {
						inner = "the later transaction lost its own write after the finished handle was aborted/committed again"
					}
					return nil
				})
				if err != nil && inner == "" {
					inner = fmt.Sprintf("the later transaction failed: %v", err)
				}
			})
			if done {
				if inner == "" && !w.F.Has("GET", "/verif-second-txn") {
					inner = "the later transaction returned nil but its write is not published"
				}
				if inner != "" {
					fail("settled-usable", "%s", inner)
				}
				_, _ = w.F.Delete("GET", "/verif-second-txn")
			}
		}
		// a new write transaction is admitted
		ok := kit.Completes(20*time.Second, func() {
			_, _ = w.F.Handle("GET", "/verif-lock-probe", func(fox.Context) {})
		})
		if !ok {
			if g := kit.BlockedOnMutex(kit.AllStacks(), "txnWith", "(*Router).Handle"); g != "" {
				fail("lock-held", "a new write is not admitted after the ending: writer blocked on the router mutex\n%s", kit.TrimStack(g))
			} else {
				run.Inconclusive("write after ending did not finish within the watchdog but no goroutine is parked on the router mutex (%s)", key)
			}
			return
		}
		// read-only transaction: writes return ErrReadOnlyTxn and change nothing
		rt := w.F.Txn(false)
		cur := w.Observe(w.F)
		if _, err := rt.Handle("GET", "/verif-ro", func(fox.Context) {}); !errors.Is(err, fox.ErrReadOnlyTxn) {
			fail("readonly", "Handle on a read-only transaction returned %v", err)
		}
		if _, err := rt.Delete("GET", "/verif-lock-probe"); !errors.Is(err, fox.ErrReadOnlyTxn) {
			fail("readonly", "Delete on a read-only transaction returned %v", err)
		}
		if _, err := rt.Update("GET", "/verif-lock-probe", func(fox.Context) {}); !errors.Is(err, fox.ErrReadOnlyTxn) {
			fail("readonly", "Update on a read-only transaction returned %v", err)
		}
		if err := rt.Truncate(); !errors.Is(err, fox.ErrReadOnlyTxn) {
			fail("readonly", "Truncate on a read-only transaction returned %v", err)
		}
		rt.Commit()
		rt.Abort()
		if got := w.Observe(w.F); got != cur {
			fail("readonly", "writing through a read-only transaction changed the router\n%s", hist.Diff(cur, got))
		}
	})
}

type stampKey struct{}

// concurrent: all-or-nothing visibility for single-snapshot readers.
func concurrent(run *kit.Run) {
	rounds := run.Pick(20, 200)
	keys := []string{"/k/a", "/k/ab", "/k/abc", "/k/b/{p}", "/k/c/*{w}", "x.com/k/a"}
	methods := []string{"GET", "POST"}
	var reads, torn atomic.Int64
	for round := 0; round < rounds; round++ {
		f, _ := fox.New()
		h := func(fox.Context) {}
		for _, m := range methods {
			for _, p := range keys {
				f.MustHandle(m, p, h, fox.WithAnnotation(stampKey{}, int64(0)))
			}
		}
		var next atomic.Int64
		var committedMax atomic.Int64
		aborted := sync.Map{}
		var wg sync.WaitGroup
		var stop atomic.Bool
		for wr := 0; wr < 3; wr++ {
			wg.Add(1)
			r := run.Rand(uint64(70000 + round*16 + wr))
			go func() {
				defer wg.Done()
				for i := 0; i < 60; i++ {
					id := next.Add(1)
					abort := r.IntN(4) == 0
					if abort {
						aborted.Store(id, true)
					}
					_ = f.Updates(func(txn *fox.Txn) error {
						for _, m := range methods {
							for _, p := range keys {
								if r.IntN(3) == 0 {
									if _, err := txn.Delete(m, p); err != nil {
										return err
									}
									if _, err := txn.Handle(m, p, h, fox.WithAnnotation(stampKey{}, id)); err != nil {
										return err
									}
								} else if _, err := txn.Update(m, p, h, fox.WithAnnotation(stampKey{}, id)); err != nil {
									return err
								}
								if r.IntN(8) == 0 {
									runtime.Gosched()
								}
							}
						}
						if abort {
							return errors.New("abort")
						}
						committedMax.Store(id)
						return nil
					})
				}
			}()
		}
		for rd := 0; rd < 8; rd++ {
			wg.Add(1)
			go func(rd int) {
				defer wg.Done()
				for i := 0; i < 150 && !stop.Load(); i++ {
					var stamps []int64
					switch (i + rd) % 3 {
					case 0:
						it := f.Iter()
						for _, rt := range it.All() {
							stamps = append(stamps, rt.Annotation(stampKey{}).(int64))
						}
					case 1:
						_ = f.View(func(txn *fox.Txn) error {
							for _, m := range methods {
								for _, p := range keys {
									if rt := txn.Route(m, p); rt != nil {
										stamps = append(stamps, rt.Annotation(stampKey{}).(int64))
									} else {
										stamps = append(stamps, -1)
									}
								}
							}
							return nil
						})
					default:
						t := f.Txn(false)
						for _, m := range methods {
							for _, p := range keys {
								rt, _ := t.Reverse(m, "x.com", strings.NewReplacer("{p}", "v", "*{w}", "v/w", "x.com", "").Replace(p))
								if rt != nil {
									stamps = append(stamps, rt.Annotation(stampKey{}).(int64))
								} else {
									stamps = append(stamps, -1)
								}
							}
						}
					}
					reads.Add(1)
					bad := len(stamps) != len(keys)*len(methods)
					for _, s := range stamps {
						if s != stamps[0] {
							bad = true
						}
						if _, ab := aborted.Load(s); ab {
							bad = true
						}
					}
					if bad {
						torn.Add(1)
						stop.Store(true)
						run.Violate(fmt.Sprintf("torn-read|round=%d", round), fmt.Sprintf("a single-snapshot reader saw a partial or aborted transaction: stamps=%v (expected %d equal stamps of a committed transaction)", stamps, len(keys)*len(methods)), map[string]any{"round": round, "stamps": stamps})
					}
					runtime.Gosched()
				}
			}(rd)
		}
		wg.Wait()
		run.Case(fmt.Sprintf("concurrent|%d", round), true)
	}
	run.Count("concurrent_single_snapshot_reads", reads.Load())
	run.Count("concurrent_torn_reads", torn.Load())
	conc.AllowFlip(run)
	conc.MethodFlip(run)
	conc.OptionsStar(run)
	queuedWrites(run)
}

// queuedWrites: writes are serialised, none is lost. While a write transaction that has already changed things is
// open, a one-shot write (Handle, Update, Delete, Updates, HandleRoute, UpdateRoute) is started on another goroutine
// and given time to reach the writer lock; then the transaction commits. When both have returned, the router must
// show the effects of BOTH - the queued write must have started from the state the transaction committed.
func queuedWrites(run *kit.Run) {
	h := func(fox.Context) {}
	type qw struct {
		name  string
		do    func(f *fox.Router) error
		check func(f *fox.Router) string
	}
	ops := []qw{
		{"Router.Delete of an existing route", func(f *fox.Router) error { _, err := f.Delete("GET", "/old/a"); return err },
			func(f *fox.Router) string {
				if f.Has("GET", "/old/a") {
					return "the deleted route is still there"
				}
				return ""
			}},
		{"Router.Delete of a route that does not exist yet", func(f *fox.Router) error { _, _ = f.Delete("GET", "/txn/1"); return nil },
			func(f *fox.Router) string { return "" }},
		{"Router.Handle", func(f *fox.Router) error { _, err := f.Handle("GET", "/queued/new", h); return err },
			func(f *fox.Router) string {
				if !f.Has("GET", "/queued/new") {
					return "the queued Handle is missing"
				}
				return ""
			}},
		{"Router.Update", func(f *fox.Router) error {
			_, err := f.Update("GET", "/old/b", h, fox.WithAnnotation("queued", 1))
			return err
		},
			func(f *fox.Router) string {
				if r := f.Route("GET", "/old/b"); r == nil || r.Annotation("queued") != 1 {
					return "the queued Update is missing"
				}
				return ""
			}},
		{"Router.Updates", func(f *fox.Router) error {
			return f.Updates(func(t *fox.Txn) error { _, err := t.Handle("POST", "/queued/post", h); return err })
		}, func(f *fox.Router) string {
			if !f.Has("POST", "/queued/post") {
				return "the queued Updates is missing"
			}
			return ""
		}},
		{"Router.HandleRoute", func(f *fox.Router) error {
			rte, err := f.NewRoute("/queued/route", h)
			if err != nil {
				return err
			}
			return f.HandleRoute("GET", rte)
		}, func(f *fox.Router) string {
			if !f.Has("GET", "/queued/route") {
				return "the queued HandleRoute is missing"
			}
			return ""
		}},
	}
	rounds := run.Pick(3, 30)
	for round := 0; round < rounds; round++ {
		for _, op := range ops {
			id := fmt.Sprintf("queued-write|%s", op.name)
			run.Case(fmt.Sprintf("%s|%d", id, round), true)
			f, _ := fox.New()
			for _, p := range []string{"/old/a", "/old/b", "/old/c/{p}"} {
				f.MustHandle("GET", p, h)
			}
			txn := f.Txn(true)
			for i := 0; i < 3; i++ {
				_, _ = txn.Handle("GET", fmt.Sprintf("/txn/%d", i), h)
			}
			_, _ = txn.Handle("FOO", "/txn/foo", h)
			done := make(chan error, 1)
			go func() { done <- op.do(f) }()
			// give the queued write time to reach the lock (longer every round; the verdict does not depend on it: if it
			// has not got there yet the two writes simply run one after the other)
			time.Sleep(time.Duration(2+round%5*10) * time.Millisecond)
			txn.Commit()
			select {
			case err := <-done:
				if err != nil {
					run.Violate(id+"|error", fmt.Sprintf("%s queued behind a committing transaction failed: %v", op.name, err), nil)
				}
			case <-time.After(20 * time.Second):
				run.Inconclusive("%s queued behind a transaction did not return", op.name)
				continue
			}
			run.Eval(1)
			for i := 0; i < 3; i++ {
				if !f.Has("GET", fmt.Sprintf("/txn/%d", i)) && !(op.name == "Router.Delete of a route that does not exist yet" && i == 1) {
					run.Violate(id+"|lost-update", fmt.Sprintf("a transaction committed GET /txn/%d while %s was waiting for the writer lock; after both returned the route is gone (Len=%d): the queued write started from the state before the commit", i, op.name, f.Len()), nil)
					break
				}
			}
			if !f.Has("FOO", "/txn/foo") {
				run.Violate(id+"|lost-update", fmt.Sprintf("a transaction committed FOO /txn/foo while %s was waiting for the writer lock; after both returned the route is gone", op.name), nil)
			}
			if msg := op.check(f); msg != "" {
				run.Violate(id+"|own-effect", fmt.Sprintf("%s queued behind a committing transaction: %s", op.name, msg), nil)
			}
		}
	}
}
