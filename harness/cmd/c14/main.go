// C14: ResponseWriter status, size and written flag reflect what was really sent.
// Oracle: a shadow model driven by the event log of the underlying writer (header calls, body bytes accepted,
// flushes), checked after every call of every enumerated call sequence, for underlying writers with and without the
// optional fast paths, with sources and underlying writers that fail after k bytes (fault enumeration); the
// answers must not depend on the capability set. Plus the capability delegation matrix and the Context helpers.
package main

import (
	"bufio"
	"context"
	"errors"
	"fmt"
	"io"
	"log"
	"net"
	"net/http"
	"net/url"
	"strings"
	"time"

	"foxverif/kit"

	"github.com/tigerwill90/fox"
)

const rule = "cases = (call sequence over {WriteHeader 100/150/101/200/404/500, Write 0/3 bytes, WriteString, ReadFrom with sources of 0/1/5 bytes and sources failing after 0/2 bytes, sources returning their last bytes together with EOF / with their error, Flush}, " +
	"underlying writer capability set in {plain, +ReaderFrom, +Flusher, +both}, underlying writer failing after k in {never,0,2,4} body bytes); all sequences up to a bounded length are enumerated, random longer ones; " +
	"plus a successful Hijack followed by ordinary requests on the recycled context; distinct by (sequence, capability set, k); non-trivial when the sequence contains a body operation or more than one header call"

var opNames = []string{"WH100", "WH150", "WH101", "WH200", "WH404", "WH500", "W0", "W3", "WS3", "RF0", "RF1", "RF5", "RFfail2", "RFfail0", "Flush", "RF5eof", "RFfail2now", "RFlim0", "RFlimneg"}

type event struct {
	kind string // header, body, flush
	code int
	data string
}

// under is the recording underlying writer; it accepts at most limit body bytes in total (limit<0: unlimited).
type under struct {
	h       http.Header
	log     []event
	limit   int
	got     int
	wrote   bool // a final header was written (explicitly or implicitly)
	flushes int
}

var errLimit = errors.New("underlying writer: device full")

func (u *under) Header() http.Header { return u.h }
func (u *under) WriteHeader(code int) {
	u.log = append(u.log, event{kind: "header", code: code})
	if code >= 200 || code == 101 {
		u.wrote = true
	}
}
func (u *under) accept(b []byte) (int, error) {
	n := len(b)
	var err error
	if u.limit >= 0 && u.got+n > u.limit {
		n = u.limit - u.got
		err = errLimit
	}
	if n > 0 {
		if !u.wrote {
			u.wrote = true // implicit 200, like net/http
			u.log = append(u.log, event{kind: "implicit-header", code: 200})
		}
		u.log = append(u.log, event{kind: "body", data: string(b[:n])})
		u.got += n
	}
	return n, err
}
func (u *under) Write(b []byte) (int, error) { return u.accept(b) }

type underRF struct{ *under }

func (u underRF) ReadFrom(src io.Reader) (int64, error) {
	var total int64
	buf := make([]byte, 4)
	for {
		n, rerr := src.Read(buf)
		if n > 0 {
			m, werr := u.accept(buf[:n])
			total += int64(m)
			if werr != nil {
				return total, werr
			}
		}
		if rerr == io.EOF {
			return total, nil
		}
		if rerr != nil {
			return total, rerr
		}
	}
}

type underFl struct{ *under }

func (u underFl) Flush() { u.flushes++; u.log = append(u.log, event{kind: "flush"}) }

type underBoth struct{ *under }

func (u underBoth) ReadFrom(src io.Reader) (int64, error) { return underRF{u.under}.ReadFrom(src) }
func (u underBoth) FlushError() error {
	u.flushes++
	u.log = append(u.log, event{kind: "flush"})
	return nil
}

var capNames = []string{"plain", "ReaderFrom", "Flusher", "ReaderFrom+FlushError"}

func wrap(u *under, capSet int) http.ResponseWriter {
	switch capSet {
	case 1:
		return underRF{u}
	case 2:
		return underFl{u}
	case 3:
		return underBoth{u}
	}
	return u
}

type failingReader struct {
	data  string
	pos   int
	fail  bool
	eager bool // report EOF / the failure in the same Read call that returns the last bytes (allowed by io.Reader)
}

var errSrc = errors.New("source: broken")

func (r *failingReader) Read(p []byte) (int, error) {
	if r.pos >= len(r.data) {
		if r.fail {
			return 0, errSrc
		}
		return 0, io.EOF
	}
	n := copy(p, r.data[r.pos:])
	r.pos += n
	if r.eager && r.pos >= len(r.data) {
		if r.fail {
			return n, errSrc
		}
		return n, io.EOF
	}
	return n, nil
}

type obs struct {
	status  int
	size    int
	written bool
	n       int64
	errored bool
	finals  int // final headers the underlying writer had received explicitly at that point
}

type result struct {
	steps    []obs
	problems []string
}

func init() {
	log.SetOutput(io.Discard)
}

func newRouter() *fox.Router {
	f, err := fox.New()
	if err != nil {
		panic(err)
	}
	return f
}

// exec runs the sequence on a recorder wrapping the underlying writer and checks the shadow model after each call.
func exec(f *fox.Router, seq []int, capSet, limit int) result {
	var res result
	u := &under{h: http.Header{}, limit: limit}
	req := &http.Request{Method: "GET", URL: &url.URL{Path: "/seq"}, Header: http.Header{}, Proto: "HTTP/1.1", ProtoMajor: 1, ProtoMinor: 1, RemoteAddr: "192.0.2.1:1"}
	payload := 0
	var want string // body bytes that should have reached the underlying writer, in order
	bad := func(format string, a ...any) { res.problems = append(res.problems, fmt.Sprintf(format, a...)) }
	run := func(w fox.ResponseWriter) {
		if w.Status() != 200 || w.Size() != 0 || w.Written() {
			bad("fresh writer: status=%d size=%d written=%t", w.Status(), w.Size(), w.Written())
		}
		for step, op := range seq {
			var n int64
			var err error
			next := func(k int) string {
				s := ""
				for i := 0; i < k; i++ {
					s += string(rune('a' + (payload+i)%26))
				}
				payload += k
				return s
			}
			before, supplied := u.got, payload
			switch opNames[op] {
			case "WH100":
				w.WriteHeader(100)
			case "WH150":
				w.WriteHeader(150) // an informational code without a name: still not a final status
			case "WH101":
				w.WriteHeader(101)
			case "WH200":
				w.WriteHeader(200)
			case "WH404":
				w.WriteHeader(404)
			case "WH500":
				w.WriteHeader(500)
			case "W0":
				var m int
				m, err = w.Write(nil)
				n = int64(m)
			case "W3":
				var m int
				m, err = w.Write([]byte(next(3)))
				n = int64(m)
			case "WS3":
				var m int
				m, err = w.WriteString(next(3))
				n = int64(m)
			case "RF0":
				n, err = w.ReadFrom(&failingReader{})
			case "RF1":
				n, err = w.ReadFrom(&failingReader{data: next(1)})
			case "RF5":
				n, err = w.ReadFrom(&failingReader{data: next(5)})
			case "RFfail2":
				n, err = w.ReadFrom(&failingReader{data: next(2), fail: true})
			case "RFfail0":
				n, err = w.ReadFrom(&failingReader{fail: true})
			case "RF5eof":
				n, err = w.ReadFrom(&failingReader{data: next(5), eager: true})
			case "RFfail2now":
				n, err = w.ReadFrom(&failingReader{data: next(2), fail: true, eager: true})
			case "RFlim0":
				// what io.CopyN(w, src, 0) and http.ServeContent of an empty document hand over
				n, err = w.ReadFrom(&io.LimitedReader{R: strings.NewReader("never read"), N: 0})
			case "RFlimneg":
				n, err = w.ReadFrom(&io.LimitedReader{R: strings.NewReader("never read"), N: -1})
			case "Flush":
				err = w.FlushError()
				if capSet < 2 {
					if !errors.Is(err, http.ErrNotSupported) {
						bad("step %d: FlushError on an underlying writer without flush support returned %v", step, err)
					}
					err = nil
				}
			}
			accepted := u.got - before
			if strings.HasPrefix(opNames[op], "W") && !strings.HasPrefix(opNames[op], "WH") || strings.HasPrefix(opNames[op], "RF") {
				if int(n) != accepted {
					bad("step %d (%s): returned n=%d but the underlying writer accepted %d bytes", step, opNames[op], n, accepted)
				}
			}
			// completeness: an underlying writer that never fails receives every byte the handler supplied, and the only
			// error reported is the source's own
			if u.limit < 0 && opNames[op] != "Flush" && !strings.HasPrefix(opNames[op], "WH") {
				srcFails := strings.HasPrefix(opNames[op], "RFfail")
				if int(n) != payload-supplied {
					bad("step %d (%s): %d bytes supplied, n=%d returned (underlying writer never fails)", step, opNames[op], payload-supplied, n)
				}
				if srcFails != (err != nil) || (srcFails && !errors.Is(err, errSrc)) {
					bad("step %d (%s): returned error %v (source fails: %t, underlying writer never fails)", step, opNames[op], err, srcFails)
				}
			}
			// shadow model from the event log
			finals, status, body, afterBody := 0, 200, 0, false
			var stream strings.Builder
			for _, e := range u.log {
				switch e.kind {
				case "header":
					if e.code >= 200 || e.code == 101 {
						finals++
						if finals == 1 {
							status = e.code
						}
						if body > 0 {
							afterBody = true
						}
					}
				case "body":
					body += len(e.data)
					stream.WriteString(e.data)
				}
			}
			if finals > 1 {
				bad("step %d (%s): %d final status codes were forwarded to the underlying writer", step, opNames[op], finals)
			}
			if afterBody {
				bad("step %d (%s): a final status was forwarded after body bytes", step, opNames[op])
			}
			wantWritten := finals > 0 || body > 0
			if w.Status() != status || w.Size() != body || w.Written() != wantWritten {
				bad("step %d (%s): Status()=%d Size()=%d Written()=%t, the underlying writer saw status=%d body=%d bytes (written=%t)", step, opNames[op], w.Status(), w.Size(), w.Written(), status, body, wantWritten)
			}
			_ = want
			res.steps = append(res.steps, obs{w.Status(), w.Size(), w.Written(), n, err != nil, finals})
			// every accepted byte in order: the stream is the concatenation of accepted prefixes of the payloads
			exp := ""
			for i := 0; i < u.got; i++ {
				exp += string(rune('a' + i%26))
			}
			if u.limit < 0 && stream.String() != exp {
				bad("step %d (%s): body stream %q, expected %q", step, opNames[op], stream.String(), exp)
			}
		}
	}
	f.ServeHTTP(wrap(u, capSet), req.WithContext(context.WithValue(context.Background(), seqKey{}, run)))
	return res
}

func hasFlush(seq []int) bool {
	for _, op := range seq {
		if opNames[op] == "Flush" {
			return true
		}
	}
	return false
}

func nontrivial(seq []int) bool {
	hdr, body := 0, 0
	for _, op := range seq {
		if op < 6 {
			hdr++
		} else if op < 14 {
			body++
		}
	}
	return body > 0 || hdr > 1
}

func seqString(seq []int) string {
	var s []string
	for _, op := range seq {
		s = append(s, opNames[op])
	}
	return strings.Join(s, " ")
}

var limitsK = []int{-1, 0, 2, 4}

func checkSeq(run *kit.Run, f *fox.Router, seq []int) {
	name := seqString(seq)
	for _, k := range limitsK {
		var base result
		for capSet := 0; capSet < 4; capSet++ {
			id := fmt.Sprintf("%s|cap=%s|limit=%d", name, capNames[capSet], k)
			var r result
			if run.Guard("panic|"+id, map[string]any{"sequence": name, "capabilities": capNames[capSet], "underlying_limit": k}, func() { r = exec(f, seq, capSet, k) }) {
				continue
			}
			run.Case(id, nontrivial(seq))
			for _, p := range r.problems {
				run.Violate("model|"+id, fmt.Sprintf("sequence [%s] on an underlying writer with capabilities %s failing after %d body bytes (-1 = never): %s", name, capNames[capSet], k, p),
					map[string]any{"sequence": name, "capabilities": capNames[capSet], "underlying_limit": k})
				break
			}
			// capability sets are comparable when they support the same operations of the sequence: Flush is only
			// available on sets 2 and 3, so sequences containing it are compared within {0,1} and within {2,3}
			if capSet == 0 || (capSet == 2 && hasFlush(seq)) {
				base = r
				continue
			}
			// same answers whatever the optional fast paths (Flush differs only in support)
			for i := range r.steps {
				if i >= len(base.steps) {
					break
				}
				a, b := base.steps[i], r.steps[i]
				if a.finals != b.finals {
					// only legitimate cause: a body operation on which the underlying writer accepted nothing and failed;
					// from there on the two logs have diverged and later steps are not comparable
					op := opNames[seq[i]]
					body := strings.HasPrefix(op, "RF") || op == "W3" || op == "WS3"
					if body && a.n == 0 && b.n == 0 && a.errored && b.errored && a.size == b.size {
						break
					}
				}
				// Written is compared only when both underlying writers were sent the same explicit headers: without the
				// ReaderFrom fast path a body operation forwards the implicit header itself before the first byte, with it
				// the underlying writer does; when that writer then accepts nothing, each answer is accurate for its own log.
				if a.status != b.status || a.size != b.size || (a.written != b.written && a.finals == b.finals) || a.n != b.n || (a.errored != b.errored && opNames[seq[i]] != "Flush") {
					run.Violate("capability-dependent|"+id, fmt.Sprintf("sequence [%s], underlying limit %d: after step %d (%s) the answers differ between the baseline underlying writer (status=%d size=%d written=%t n=%d err=%t) and one with %s (status=%d size=%d written=%t n=%d err=%t)",
						name, k, i, opNames[seq[i]], a.status, a.size, a.written, a.n, a.errored, capNames[capSet], b.status, b.size, b.written, b.n, b.errored), map[string]any{"sequence": name, "capabilities": capNames[capSet], "underlying_limit": k})
					break
				}
			}
		}
	}
}

func main() {
	run := kit.Start("C14", rule)
	defer run.Finish()
	maxLen := run.Pick(4, 5)
	// regression sequences of fixed findings first
	f0 := routerWithSeq()
	for _, s := range [][]int{{12}, {9}, {11}, {3, 12}, {13, 7}, {1, 4}, {1, 1, 7}} {
		checkSeq(run, f0, s)
	}
	nOps := len(opNames)
	// enumerate by first two ops for parallelism
	run.Parallel(nOps*nOps, func(b int) {
		f := routerWithSeq()
		seq := []int{b / nOps, b % nOps}
		if b%nOps == 0 {
			checkSeq(run, f, seq[:1])
		}
		var rec func()
		rec = func() {
			checkSeq(run, f, seq)
			if len(seq) == maxLen {
				return
			}
			for op := 0; op < nOps; op++ {
				seq = append(seq, op)
				rec()
				seq = seq[:len(seq)-1]
			}
		}
		rec()
	})
	run.SetExtra("exhaustive_subspace", fmt.Sprintf("all call sequences of length 1..%d over %d operations x 4 capability sets x 4 underlying failure points: enumerated completely", maxLen, nOps))
	// random longer sequences
	n := run.Pick(2000, 5000000)
	run.Parallel(n/100, func(b int) {
		r := run.Rand(uint64(b))
		f := routerWithSeq()
		for i := 0; i < 100; i++ {
			k := maxLen + 1 + r.IntN(12-maxLen)
			seq := make([]int, k)
			for j := range seq {
				seq[j] = r.IntN(nOps)
			}
			checkSeq(run, f, seq)
		}
	})
	capabilities(run)
	helpers(run)
	run.Sample(map[string]any{"sequence": "WH150 RFfail2 W3 WH404", "capability_sets": capNames, "underlying_failure_points": limitsK})
	run.Sample(map[string]any{"sequence": "RF0 WH500 RF5 Flush", "capability_sets": capNames, "underlying_failure_points": limitsK})
}

// routerWithSeq returns a router whose single route runs the sequence currently installed by exec. Each worker owns
// its router and the package-level hook is only read inside the handler of the same goroutine, so workers use their
// own closure instead of the global.
func routerWithSeq() *fox.Router {
	f := newRouter()
	f.MustHandle("GET", "/seq", func(c fox.Context) {
		if fn, _ := c.Request().Context().Value(seqKey{}).(func(w fox.ResponseWriter)); fn != nil {
			fn(c.Writer())
		}
	})
	return f
}

type seqKey struct{}

// ---- capability delegation ----

type capBase struct {
	h     http.Header
	calls []string
}

func (c *capBase) Header() http.Header         { return c.h }
func (c *capBase) Write(b []byte) (int, error) { return len(b), nil }
func (c *capBase) WriteHeader(int)             {}

type capAll struct{ *capBase }

func (c capAll) Flush() { c.calls = append(c.calls, "Flush") }
func (c capAll) Hijack() (net.Conn, *bufio.ReadWriter, error) {
	c.calls = append(c.calls, "Hijack")
	return nil, nil, errSentinel
}
func (c capAll) Push(string, *http.PushOptions) error {
	c.calls = append(c.calls, "Push")
	return errSentinel
}
func (c capAll) SetReadDeadline(time.Time) error {
	c.calls = append(c.calls, "SetReadDeadline")
	return errSentinel
}
func (c capAll) SetWriteDeadline(time.Time) error {
	c.calls = append(c.calls, "SetWriteDeadline")
	return errSentinel
}
func (c capAll) EnableFullDuplex() error {
	c.calls = append(c.calls, "EnableFullDuplex")
	return errSentinel
}

type capHijack struct{ *capBase }

func (c capHijack) Hijack() (net.Conn, *bufio.ReadWriter, error) {
	c.calls = append(c.calls, "Hijack")
	return nil, nil, errSentinel
}

type capPush struct{ *capBase }

func (c capPush) Push(string, *http.PushOptions) error {
	c.calls = append(c.calls, "Push")
	return errSentinel
}

type capRD struct{ *capBase }

func (c capRD) SetReadDeadline(time.Time) error {
	c.calls = append(c.calls, "SetReadDeadline")
	return errSentinel
}

type capWD struct{ *capBase }

func (c capWD) SetWriteDeadline(time.Time) error {
	c.calls = append(c.calls, "SetWriteDeadline")
	return errSentinel
}

type capFD struct{ *capBase }

func (c capFD) EnableFullDuplex() error {
	c.calls = append(c.calls, "EnableFullDuplex")
	return errSentinel
}

type capFlush struct{ *capBase }

func (c capFlush) Flush() { c.calls = append(c.calls, "Flush") }

var errSentinel = errors.New("delegated")

func capabilities(run *kit.Run) {
	type tc struct {
		name string
		mk   func(b *capBase) http.ResponseWriter
		has  map[string]bool
	}
	all := map[string]bool{"Flush": true, "Hijack": true, "Push": true, "SetReadDeadline": true, "SetWriteDeadline": true, "EnableFullDuplex": true}
	cases := []tc{
		{"none", func(b *capBase) http.ResponseWriter { return b }, map[string]bool{}},
		{"all", func(b *capBase) http.ResponseWriter { return capAll{b} }, all},
		{"Hijacker only", func(b *capBase) http.ResponseWriter { return capHijack{b} }, map[string]bool{"Hijack": true}},
		{"Pusher only", func(b *capBase) http.ResponseWriter { return capPush{b} }, map[string]bool{"Push": true}},
		{"SetReadDeadline only", func(b *capBase) http.ResponseWriter { return capRD{b} }, map[string]bool{"SetReadDeadline": true}},
		{"SetWriteDeadline only", func(b *capBase) http.ResponseWriter { return capWD{b} }, map[string]bool{"SetWriteDeadline": true}},
		{"EnableFullDuplex only", func(b *capBase) http.ResponseWriter { return capFD{b} }, map[string]bool{"EnableFullDuplex": true}},
		{"Flusher only", func(b *capBase) http.ResponseWriter { return capFlush{b} }, map[string]bool{"Flush": true}},
	}
	f := newRouter()
	var cur tc
	var base *capBase
	f.MustHandle("GET", "/cap", func(c fox.Context) {
		w := c.Writer()
		calls := map[string]func() error{
			"Flush":            w.FlushError,
			"Hijack":           func() error { _, _, err := w.Hijack(); return err },
			"Push":             func() error { return w.Push("/x", nil) },
			"SetReadDeadline":  func() error { return w.SetReadDeadline(time.Time{}) },
			"SetWriteDeadline": func() error { return w.SetWriteDeadline(time.Time{}) },
			"EnableFullDuplex": w.EnableFullDuplex,
		}
		for _, name := range []string{"Flush", "Push", "SetReadDeadline", "SetWriteDeadline", "EnableFullDuplex", "Hijack"} {
			before := len(base.calls)
			err := calls[name]()
			id := "capability|" + cur.name + "|" + name
			run.Case(id, true)
			if cur.has[name] {
				delegated := len(base.calls) == before+1 && base.calls[before] == name
				if !delegated || (name != "Flush" && err != errSentinel) || (name == "Flush" && err != nil) {
					run.Violate(id, fmt.Sprintf("underlying writer (%s) offers %s but the call was not delegated faithfully: delegated=%t err=%v", cur.name, name, delegated, err), nil)
				}
			} else if !errors.Is(err, http.ErrNotSupported) || len(base.calls) != before {
				run.Violate(id, fmt.Sprintf("underlying writer (%s) lacks %s: expected an error matching http.ErrNotSupported, got %v", cur.name, name, err), nil)
			}
		}
	})
	for _, c := range cases {
		cur = c
		base = &capBase{h: http.Header{}}
		req := &http.Request{Method: "GET", URL: &url.URL{Path: "/cap"}, Header: http.Header{}, Proto: "HTTP/1.1", ProtoMajor: 1, ProtoMinor: 1}
		run.Guard("capability-panic|"+c.name, nil, func() { f.ServeHTTP(c.mk(base), req) })
	}
	run.Count("capability_matrix_rows", int64(len(cases)))
	hijackThenReuse(run)
}

// hijackOK is an underlying writer whose Hijack succeeds.
type hijackOK struct {
	*under
	hijacked int
}

func (h *hijackOK) Hijack() (net.Conn, *bufio.ReadWriter, error) {
	h.hijacked++
	a, b := net.Pipe()
	_ = b.Close()
	return a, bufio.NewReadWriter(bufio.NewReader(a), bufio.NewWriter(a)), nil
}

// hijackThenReuse: the state of one request's writer never leaks into the next request served with the recycled
// context: after a handler hijacked its connection, the following requests (other connections) must have their status
// and body forwarded and accounted as usual.
func hijackThenReuse(run *kit.Run) {
	f := newRouter()
	f.MustHandle("GET", "/hijack", func(c fox.Context) {
		if conn, _, err := c.Writer().Hijack(); err == nil {
			_ = conn.Close()
		}
	})
	// taking the connection over is possible at any point of the response (net/http allows it after the header and
	// after body bytes): the call is delegated whenever the underlying writer offers it
	for _, late := range []string{"after-header", "after-body", "after-flush-less-writes"} {
		late := late
		f.MustHandle("GET", "/hijack/"+late, func(c fox.Context) {
			switch late {
			case "after-header":
				c.Writer().WriteHeader(200)
			case "after-body":
				_, _ = c.Writer().Write([]byte("hello"))
			default:
				_, _ = c.Writer().WriteString("he")
				_, _ = c.Writer().Write([]byte("llo"))
			}
			conn, _, err := c.Writer().Hijack()
			if err != nil {
				run.Violate("hijack-late|"+late, fmt.Sprintf("Hijack %s on an underlying writer that offers it returned %v instead of being delegated", late, err), nil)
				return
			}
			_ = conn.Close()
		})
	}
	f.MustHandle("GET", "/plain", func(c fox.Context) {
		c.Writer().WriteHeader(201)
		_, _ = c.Writer().Write([]byte("hello"))
		if c.Writer().Status() != 201 || c.Writer().Size() != 5 || !c.Writer().Written() {
			run.Violate("hijack-reuse|accounting", fmt.Sprintf("request after a hijacked one: Status()=%d Size()=%d Written()=%t after WriteHeader(201)+Write(5 bytes)", c.Writer().Status(), c.Writer().Size(), c.Writer().Written()), nil)
		}
	})
	mkreq := func(p string) *http.Request {
		return &http.Request{Method: "GET", URL: &url.URL{Path: p}, Header: http.Header{}, Proto: "HTTP/1.1", ProtoMajor: 1, ProtoMinor: 1}
	}
	// strictly sequential on one goroutine: the second request gets the context released by the first
	for round := 0; round < 50; round++ {
		h := &hijackOK{under: &under{h: http.Header{}, limit: -1}}
		run.Guard("hijack-reuse-panic", nil, func() { f.ServeHTTP(h, mkreq("/hijack")) })
		if h.hijacked != 1 {
			run.Violate("hijack-reuse|not-delegated", fmt.Sprintf("Hijack on an underlying writer that supports it was delegated %d times", h.hijacked), nil)
		}
		for _, late := range []string{"after-header", "after-body", "after-flush-less-writes"} {
			hl := &hijackOK{under: &under{h: http.Header{}, limit: -1}}
			run.Guard("hijack-late-panic", nil, func() { f.ServeHTTP(hl, mkreq("/hijack/"+late)) })
			if hl.hijacked != 1 {
				run.Violate("hijack-late|"+late+"|not-delegated", fmt.Sprintf("Hijack %s was delegated %d times to an underlying writer that offers it", late, hl.hijacked), nil)
			}
		}
		for k := 0; k < 3; k++ {
			u := &under{h: http.Header{}, limit: -1}
			run.Guard("hijack-reuse-panic", nil, func() { f.ServeHTTP(u, mkreq("/plain")) })
			status, body := 0, ""
			for _, e := range u.log {
				if e.kind == "header" && status == 0 {
					status = e.code
				}
				if e.kind == "body" {
					body += e.data
				}
			}
			run.Eval(1)
			if status != 201 || body != "hello" {
				run.Violate("hijack-reuse|swallowed", fmt.Sprintf("request #%d after a request whose handler hijacked its connection: the underlying writer received status=%d body=%q, the handler wrote 201 and %q", k+1, status, body, "hello"), nil)
			}
		}
	}
	run.Case("hijack-then-reuse", true)
	run.Count("requests_checked_after_a_hijacked_request", 150)
}

// ---- Context helpers ----

func helpers(run *kit.Run) {
	f := newRouter()
	type hc struct {
		name string
		do   func(c fox.Context) error
		code int
		ct   string
		body string
		loc  string
		err  error
	}
	var cases []hc
	for _, code := range []int{200, 201, 404, 500, 299} {
		code := code
		cases = append(cases, hc{fmt.Sprintf("String %d", code), func(c fox.Context) error { return c.String(code, "hello %s %d", "x", 7) }, code, "text/plain; charset=UTF-8", "hello x 7", "", nil})
		cases = append(cases, hc{fmt.Sprintf("Blob %d", code), func(c fox.Context) error { return c.Blob(code, "application/x-verif", []byte{1, 2, 3, 0, 255}) }, code, "application/x-verif", "\x01\x02\x03\x00\xff", "", nil})
		cases = append(cases, hc{fmt.Sprintf("Stream %d", code), func(c fox.Context) error {
			return c.Stream(code, "text/x-stream", strings.NewReader(strings.Repeat("s", 70000)))
		}, code, "text/x-stream", strings.Repeat("s", 70000), "", nil})
	}
	// formats and operands: String renders like fmt.Sprintf whatever the number of operands
	for _, fc := range []struct {
		format string
		args   []any
	}{{"progress: 100%% done", nil}, {"%d%%", []any{5}}, {"plain", nil}, {"%s", []any{"100% sure"}}, {"%%", nil}, {"a%%b%%c %v", []any{true}}, {"%5.2f|%-4s|%q", []any{3.14159, "ab", "q"}}, {"tab\tnl\n", nil}} {
		fc := fc
		cases = append(cases, hc{fmt.Sprintf("String format %q with %d operands", fc.format, len(fc.args)), func(c fox.Context) error { return c.String(202, fc.format, fc.args...) }, 202, "text/plain; charset=UTF-8", fmt.Sprintf(fc.format, fc.args...), "", nil})
	}
	// a Content-Type staged earlier (by a middleware or the handler itself) is replaced by the one Blob / Stream are given
	for _, staged := range []string{"application/json", "text/plain; charset=UTF-8", "image/png"} {
		staged := staged
		cases = append(cases, hc{"Blob after Content-Type " + staged + " was staged", func(c fox.Context) error {
			c.SetHeader("Content-Type", staged)
			return c.Blob(200, "application/x-verif", []byte("blob"))
		}, 200, "application/x-verif", "blob", "", nil})
		cases = append(cases, hc{"Stream after Content-Type " + staged + " was staged", func(c fox.Context) error {
			c.Writer().Header().Set("Content-Type", staged)
			return c.Stream(201, "text/x-stream", strings.NewReader("stream"))
		}, 201, "text/x-stream", "stream", "", nil})
	}
	cases = append(cases, hc{"Blob empty body", func(c fox.Context) error { return c.Blob(200, "application/x-verif", nil) }, 200, "application/x-verif", "", "", nil})
	cases = append(cases, hc{"Blob 300000 bytes", func(c fox.Context) error {
		return c.Blob(200, "application/x-verif", []byte(strings.Repeat("b", 300000)))
	}, 200, "application/x-verif", strings.Repeat("b", 300000), "", nil})
	for _, code := range []int{200, 404} {
		code := code
		cases = append(cases, hc{fmt.Sprintf("Stream %d from an empty source", code), func(c fox.Context) error { return c.Stream(code, "text/x-stream", strings.NewReader("")) }, code, "text/x-stream", "", "", nil})
		cases = append(cases, hc{fmt.Sprintf("Stream %d from an exhausted io.LimitedReader", code), func(c fox.Context) error {
			return c.Stream(code, "text/x-stream", &io.LimitedReader{R: strings.NewReader("beyond the limit"), N: 0})
		}, code, "text/x-stream", "", "", nil})
	}
	cases = append(cases, hc{"Stream from io.LimitReader(src, 3)", func(c fox.Context) error {
		return c.Stream(200, "text/x-stream", io.LimitReader(strings.NewReader("abcdef"), 3))
	}, 200, "text/x-stream", "abc", "", nil})
	cases = append(cases, hc{"Stream from a LimitedReader with a negative limit", func(c fox.Context) error {
		return c.Stream(200, "text/x-stream", &io.LimitedReader{R: strings.NewReader("abcdef"), N: -1})
	}, 200, "text/x-stream", "", "", nil})
	cases = append(cases, hc{"Stream from an eager-EOF reader", func(c fox.Context) error {
		return c.Stream(200, "text/x-stream", &failingReader{data: "eager", eager: true})
	}, 200, "text/x-stream", "eager", "", nil})
	for code := 290; code <= 320; code++ {
		code := code
		want := hc{name: fmt.Sprintf("Redirect %d", code), do: func(c fox.Context) error { return c.Redirect(code, "http://example.test/next?a=b") }}
		if code >= 300 && code <= 308 {
			want.code, want.loc = code, "http://example.test/next?a=b"
		} else {
			want.err = fox.ErrInvalidRedirectCode
		}
		cases = append(cases, want)
	}
	var cur hc
	var gotErr error
	var ctxKind int
	f.MustHandle("POST", "/h", func(c fox.Context) {
		switch ctxKind {
		case 1:
			// a copy of the context with the same writer and request (as a wrapping middleware hands on)
			cc := c.CloneWith(c.Writer(), c.Request())
			defer cc.Close()
			gotErr = cur.do(cc)
		case 2:
			// a context looked up by hand with the request's writer
			if rte, cc, _ := c.Fox().Lookup(c.Writer(), c.Request()); rte != nil {
				defer cc.Close()
				gotErr = cur.do(cc)
			}
		case 3:
			// another fox writer put in place of the context's own (it wraps the same underlying writer)
			_, tc := fox.NewTestContext(c.Writer(), c.Request())
			c.SetWriter(tc.Writer())
			gotErr = cur.do(c)
		default:
			gotErr = cur.do(c)
		}
	})
	base := cases
	cases = nil
	var kindOf []int
	for kind, kname := range []string{"", " [on a CloneWith copy]", " [on a Lookup context]", " [after SetWriter]"} {
		for _, c := range base {
			c2 := c
			c2.name += kname
			cases = append(cases, c2)
			kindOf = append(kindOf, kind)
		}
	}
	for ci, c := range cases {
		cur = c
		ctxKind = kindOf[ci]
		u := &under{h: http.Header{}, limit: -1}
		req := &http.Request{Method: "POST", URL: &url.URL{Path: "/h"}, Header: http.Header{}, Proto: "HTTP/1.1", ProtoMajor: 1, ProtoMinor: 1}
		id := "helper|" + c.name
		run.Case(id, true)
		if run.Guard("helper-panic|"+c.name, nil, func() { f.ServeHTTP(u, req) }) {
			continue
		}
		var body strings.Builder
		status := 0
		for _, e := range u.log {
			if e.kind == "header" && status == 0 {
				status = e.code
			}
			if e.kind == "body" {
				body.WriteString(e.data)
			}
		}
		if c.err != nil {
			if !errors.Is(gotErr, c.err) || len(u.log) != 0 {
				run.Violate(id, fmt.Sprintf("%s: expected %v and nothing sent; got err=%v and %d underlying events", c.name, c.err, gotErr, len(u.log)), nil)
			}
			continue
		}
		if gotErr != nil || status != c.code || (c.loc == "" && (u.h.Get("Content-Type") != c.ct || body.String() != c.body)) || (c.loc != "" && u.h.Get("Location") != c.loc) {
			run.Violate(id, fmt.Sprintf("%s: sent status=%d content-type=%q location=%q body(%d bytes) err=%v; expected status=%d content-type=%q location=%q body(%d bytes)",
				c.name, status, u.h.Get("Content-Type"), u.h.Get("Location"), body.Len(), gotErr, c.code, c.ct, c.loc, len(c.body)), nil)
		}
	}
	run.Count("helper_cases", int64(len(cases)))
	nested(run)
}

// nested: a router mounted inside a route of another is given the outer context's writer as its http.ResponseWriter;
// everything the inner handler sends goes through that writer, whose Status, Size and Written then reflect it.
func nested(run *kit.Run) {
	outer, inner := newRouter(), newRouter()
	inner.MustHandle("GET", "/n/{id}", func(c fox.Context) {
		c.Writer().WriteHeader(201)
		_, _ = c.Writer().Write([]byte("created"))
		if c.Writer().Status() != 201 || c.Writer().Size() != 7 || !c.Writer().Written() {
			run.Violate("nested|inner-accounting", fmt.Sprintf("inner writer: Status()=%d Size()=%d Written()=%t after WriteHeader(201)+Write(7 bytes)", c.Writer().Status(), c.Writer().Size(), c.Writer().Written()), nil)
		}
	})
	outer.MustHandle("GET", "/n/{id}", func(c fox.Context) {
		inner.ServeHTTP(c.Writer(), c.Request())
		w := c.Writer()
		if w.Status() != 201 || w.Size() != 7 || !w.Written() {
			run.Violate("nested|outer-accounting", fmt.Sprintf("a router mounted inside this route sent 201 and 7 body bytes through this context's writer, which reports Status()=%d Size()=%d Written()=%t", w.Status(), w.Size(), w.Written()), nil)
		}
		// the response has been started: a fallback that checks Written() must not send anything more
		if !w.Written() {
			w.WriteHeader(502)
		}
	})
	for i := 0; i < 20; i++ {
		u := &under{h: http.Header{}, limit: -1}
		req := &http.Request{Method: "GET", URL: &url.URL{Path: "/n/7"}, Header: http.Header{}, Proto: "HTTP/1.1", ProtoMajor: 1, ProtoMinor: 1}
		run.Guard("nested-panic", nil, func() { outer.ServeHTTP(u, req) })
		var body strings.Builder
		finals := 0
		for _, e := range u.log {
			if e.kind == "header" && e.code >= 200 {
				finals++
			}
			if e.kind == "body" {
				body.WriteString(e.data)
			}
		}
		run.Eval(1)
		if finals != 1 || body.String() != "created" {
			run.Violate("nested|forwarding", fmt.Sprintf("the underlying writer received %d final status codes and body %q, the mounted router sent 201 and %q", finals, body.String(), "created"), nil)
		}
	}
	run.Case("nested-router", true)
}
