// C12: a Context only ever shows the current request.
// Oracle: every request carries one unique token replicated into every observable field (path parameter, query,
// request header, remote address, response header, status, body length); handlers and middleware of every kind
// compare every Context getter with the expectation attached to *their* request; clones are retained and re-read
// after later traffic and after the tree was replaced. Sequential mode (GOMAXPROCS=1, deterministic pool reuse) and
// concurrent mode under the race detector with a writer replacing the tree.
package main

import (
	"bufio"
	"context"
	"fmt"
	"io"
	"net"
	"net/http"
	"net/url"
	"runtime"
	"strconv"
	"strings"
	"sync"
	"sync/atomic"
	"time"

	"foxverif/gen"
	"foxverif/kit"
	"foxverif/ref"
	"foxverif/route"

	"github.com/tigerwill90/fox"
)

const rule = "cases = requests of 29 shapes (direct, two parameters, catch-all, hostname, ignored trailing slash, redirect, 404, 405, auto OPTIONS, manual Lookup with own writer, Lookup with nil writer, CloneWith, infix catch-alls with and without following parameters, 405/OPTIONS whose probing backtracks between hostname labels) " +
	"each with a unique token in every observable field, in random order; every handler/middleware invocation compares all Context getters with its own request; clones re-read later; " +
	"distinct by token; non-trivial when the previous user of the pooled context was a request of a different shape (sequential mode) or always (concurrent mode)"

type expKey struct{}

type expect struct {
	tok      string
	shape    string
	req      *http.Request
	pattern  string // "" for special handlers
	params   []fox.Param
	scope    fox.HandlerScope
	kind     string // route noroute nomethod options redirect
	seen     atomic.Int32
	problems []string
	mu       sync.Mutex
}

func (e *expect) fail(format string, a ...any) {
	e.mu.Lock()
	e.problems = append(e.problems, fmt.Sprintf(format, a...))
	e.mu.Unlock()
}

type world struct {
	run    *kit.Run
	f      *fox.Router
	clones []held
	mu     sync.Mutex
}

type held struct {
	c       fox.Context
	e       *expect
	status  int
	size    int
	written bool
	hdr     string
}

// verify compares every getter of c with the expectation of the request it is supposed to belong to.
func verify(c fox.Context, e *expect, where string) {
	if c.Request() == nil {
		e.fail("%s: Request() is nil", where)
		return
	}
	if got, _ := c.Request().Context().Value(expKey{}).(*expect); got != e {
		other := "<none>"
		if got != nil {
			other = got.tok + "/" + got.shape
		}
		e.fail("%s: Request() belongs to another request (%s)", where, other)
	}
	if c.Header("X-Token") != e.tok {
		e.fail("%s: Header(X-Token)=%q", where, c.Header("X-Token"))
	}
	if c.QueryParam("t") != e.tok || c.QueryParams().Get("t") != e.tok {
		e.fail("%s: QueryParam(t)=%q QueryParams=%v", where, c.QueryParam("t"), c.QueryParams())
	}
	if !strings.Contains(c.Path(), e.tok) && e.shape != "options-star" && e.shape != "static-then-param" && e.shape != "ignored-tsr-static" {
		e.fail("%s: Path()=%q", where, c.Path())
	}
	if c.Method() != e.req.Method || c.Host() != e.req.Host {
		e.fail("%s: Method()/Host()=%q %q", where, c.Method(), c.Host())
	}
	if ip := c.RemoteIP().String(); !strings.HasPrefix(e.req.RemoteAddr, ip+":") {
		e.fail("%s: RemoteIP()=%q for RemoteAddr %q", where, ip, e.req.RemoteAddr)
	}
	if ip, err := c.ClientIP(); err != nil || ip.String() != ipOfToken(e.tok) {
		e.fail("%s: ClientIP()=%v (%v), the resolver designates %s for this request", where, ip, err, ipOfToken(e.tok))
	}
	if c.Fox() == nil {
		e.fail("%s: Fox() is nil", where)
	}
	if c.Pattern() != e.pattern {
		e.fail("%s: Pattern()=%q, expected %q", where, c.Pattern(), e.pattern)
	}
	if (c.Route() == nil) != (e.pattern == "") || (c.Route() != nil && c.Route().Pattern() != e.pattern) {
		e.fail("%s: Route()=%v, expected pattern %q", where, c.Route(), e.pattern)
	}
	if c.Scope() != e.scope {
		e.fail("%s: Scope()=%d, expected %d", where, c.Scope(), e.scope)
	}
	var ps []fox.Param
	for p := range c.Params() {
		ps = append(ps, p)
	}
	if len(ps) != len(e.params) {
		e.fail("%s: Params()=%v, expected %v", where, ps, e.params)
	} else {
		for i := range ps {
			if ps[i] != e.params[i] || c.Param(ps[i].Key) != e.params[i].Value {
				e.fail("%s: Params()=%v Param(%s)=%q, expected %v", where, ps, ps[i].Key, c.Param(ps[i].Key), e.params)
			}
		}
	}
	// names that other routes declare, but not the route of this request, have no value here
	for _, name := range []string{"nope", "tok", "a", "b", "id"} {
		declared := false
		for _, p := range e.params {
			declared = declared || p.Key == name
		}
		if !declared && c.Param(name) != "" {
			e.fail("%s: Param(%s)=%q although the route of this request declares no such parameter", where, name, c.Param(name))
		}
	}
}

func statusOf(tok string) int {
	n, _ := strconv.Atoi(strings.TrimLeft(tok[1:], "0"))
	return 200 + n%26
}

// handler is installed for every role; it validates the context, writes a token-derived response, and clones.
func (w *world) handler(kind string) fox.HandlerFunc {
	return func(c fox.Context) {
		e, _ := c.Request().Context().Value(expKey{}).(*expect)
		if e == nil {
			// the request object is not the current one at all: attribute to whoever is in flight (reported by the driver)
			return
		}
		e.seen.Add(1)
		if e.kind != kind {
			e.fail("%s handler ran, expected %s", kind, e.kind)
		}
		verify(c, e, kind+" handler")
		// lookups made while this request is in flight (a handler that consults the router) borrow and release pooled
		// contexts of their own; this request's context must come out unchanged
		if n := e.tok[len(e.tok)-1]; n%3 == 0 {
			for _, lp := range []struct{ host, path string }{{"", "/i/other-" + e.tok}, {"ts.h.com", "/it/other-" + e.tok}, {"x.ts2.com", "/it/o2-" + e.tok}, {"", "/d/other"}} {
				rq := &http.Request{Method: "GET", Host: lp.host, URL: &url.URL{Path: lp.path}, Header: http.Header{}}
				if _, cc, _ := c.Fox().Lookup(nil, rq); cc != nil {
					cc.Close()
				}
				_, _ = c.Fox().Reverse("GET", lp.host, lp.path)
			}
			verify(c, e, kind+" handler after nested lookups")
		}
		wr := c.Writer()
		if wr.Written() || wr.Size() != 0 || wr.Status() != 200 {
			e.fail("%s handler: fresh writer shows status=%d size=%d written=%t", kind, wr.Status(), wr.Size(), wr.Written())
		}
		if v := wr.Header().Get("X-Resp"); v != "" {
			e.fail("%s handler: response header already carries X-Resp=%q", kind, v)
		}
		c.SetHeader("X-Resp", e.tok)
		wr.WriteHeader(statusOf(e.tok))
		_, _ = io.WriteString(wr, e.tok)
		// the request of the context is replaced (as a middleware that rewrites the request would do): every
		// request-derived getter follows the new request, route and parameters stay
		if e.shape == "setrequest" {
			tok2 := e.tok + "b"
			e2 := &expect{tok: tok2, shape: e.shape, pattern: e.pattern, params: e.params, scope: e.scope, kind: e.kind}
			r2 := e.req.Clone(context.WithValue(context.Background(), expKey{}, e2))
			r2.Header = http.Header{"X-Token": {tok2}}
			u := *e.req.URL
			u.RawQuery = "t=" + tok2
			u.Path = "/d/" + tok2
			r2.URL = &u
			r2.Host = "other.test"
			r2.RemoteAddr = "10.9.9.9:99"
			e2.req = r2
			c.SetRequest(r2)
			verify(c, e2, "after SetRequest")
			cl2 := c.Clone()
			verify(cl2, e2, "clone taken after SetRequest")
			c.SetRequest(e.req)
			verify(c, e, "after SetRequest back to the original request")
			for _, p := range e2.problems {
				e.fail("%s", p)
			}
		}
		// the writer of the context is replaced for a while (as a middleware that wraps the writer would do): Writer(),
		// and what a Clone reports about the response so far, follow the writer in place
		if e.shape == "setwriter" {
			orig := c.Writer()
			st0, sz0, wr0 := orig.Status(), orig.Size(), orig.Written()
			own := &ownW{respW: &respW{h: http.Header{"X-Own": {e.tok}}}}
			own.WriteHeader(statusOf(e.tok) + 100)
			_, _ = own.Write([]byte("own" + e.tok))
			c.SetWriter(own)
			if c.Writer() != fox.ResponseWriter(own) {
				e.fail("after SetWriter: Writer() is not the writer just set")
			}
			verify(c, e, "after SetWriter")
			cl := c.Clone()
			verify(cl, e, "clone taken after SetWriter")
			if cw := cl.Writer(); cw.Status() != own.Status() || cw.Size() != own.Size() || cw.Written() != own.Written() || cw.Header().Get("X-Own") != e.tok {
				e.fail("clone taken after SetWriter: its writer shows status=%d size=%d written=%t X-Own=%q, the writer in place has %d %d %t %q", cw.Status(), cw.Size(), cw.Written(), cw.Header().Get("X-Own"), own.Status(), own.Size(), own.Written(), e.tok)
			}
			c.SetWriter(orig)
			if c.Writer() != orig {
				e.fail("after SetWriter(original): Writer() is not the original writer")
			}
			if orig.Status() != st0 || orig.Size() != sz0 || orig.Written() != wr0 {
				e.fail("the original writer changed while another writer was in place: status=%d size=%d written=%t, before %d %d %t", orig.Status(), orig.Size(), orig.Written(), st0, sz0, wr0)
			}
		}
		// the handler takes the connection over at the end (underlying writer that supports it): whatever the writer
		// remembers about that must not reach the next request served with the recycled context
		if e.shape == "hijack" {
			conn, _, err := c.Writer().Hijack()
			if err != nil {
				e.fail("Hijack on an underlying writer that supports it failed: %v", err)
			} else {
				_ = conn.Close()
			}
		}
		// CloneWith inside the handler: same route/params, other request and writer
		if e.shape == "clonewith" {
			r2 := e.req.Clone(e.req.Context())
			cw := c.CloneWith(c.Writer(), r2)
			if cw.Request() != r2 {
				e.fail("CloneWith: Request() is not the substituted request")
			}
			verify(cw, e, "CloneWith copy")
			cw.Close()
		}
		cl := c.Clone()
		// the handler goes on editing the live request in place (redacting a header, rewriting the URL): the copy keeps
		// what it was given
		if lr := c.Request(); lr != nil && lr.URL != nil && lr.Header != nil {
			oldTok, hadTok := lr.Header["X-Token"]
			oldPath, oldRawPath, oldQuery := lr.URL.Path, lr.URL.RawPath, lr.URL.RawQuery
			lr.Header.Set("X-Token", "edited-in-place")
			lr.URL.Path, lr.URL.RawPath, lr.URL.RawQuery = "/edited/in/place", "", "t=edited-in-place"
			verify(cl, e, "clone, after the live request was edited in place")
			if hadTok {
				lr.Header["X-Token"] = oldTok
			} else {
				lr.Header.Del("X-Token")
			}
			lr.URL.Path, lr.URL.RawPath, lr.URL.RawQuery = oldPath, oldRawPath, oldQuery
		}
		w.mu.Lock()
		if len(w.clones) < 4000 {
			w.clones = append(w.clones, held{cl, e, wr.Status(), wr.Size(), wr.Written(), fmt.Sprint(wr.Header())})
		}
		w.mu.Unlock()
	}
}

func (w *world) mw(scopeName string) fox.MiddlewareFunc {
	return func(next fox.HandlerFunc) fox.HandlerFunc {
		return func(c fox.Context) {
			if e, _ := c.Request().Context().Value(expKey{}).(*expect); e != nil {
				verify(c, e, "middleware before "+scopeName)
				if scopeName == "redirect" {
					e.seen.Add(1)
					if e.kind != "redirect" {
						e.fail("redirect handler ran, expected %s", e.kind)
					}
				}
				next(c)
				verify(c, e, "middleware after "+scopeName)
				return
			}
			next(c)
		}
	}
}

// tokenResolver designates the client address from the request's own token, so that an answer kept from another
// request is visible.
type tokenResolver struct{}

func ipOfToken(tok string) string {
	n, _ := strconv.Atoi(strings.TrimLeft(strings.TrimRight(tok[1:], "b"), "0"))
	if strings.HasSuffix(tok, "b") {
		n += 1 << 22
	}
	return fmt.Sprintf("100.%d.%d.%d", (n>>16)&255, (n>>8)&255, n&255)
}

func (tokenResolver) ClientIP(c fox.Context) (*net.IPAddr, error) {
	return &net.IPAddr{IP: net.ParseIP(ipOfToken(c.Header("X-Token")))}, nil
}

func newWorld(run *kit.Run) *world { return newWorldWith(run, false) }

// newWorldWith optionally installs, on every scope, a middleware that forwards a CloneWith copy of the context.
func newWorldWith(run *kit.Run, forward bool) *world {
	w := &world{run: run}
	var extra []fox.GlobalOption
	if forward {
		extra = append(extra, fox.WithMiddleware(func(next fox.HandlerFunc) fox.HandlerFunc {
			return func(c fox.Context) {
				cc := c.CloneWith(c.Writer(), c.Request())
				defer cc.Close()
				next(cc)
			}
		}))
	}
	f, err := fox.New(append(extra,
		fox.WithClientIPResolver(tokenResolver{}),
		fox.WithNoRouteHandler(w.handler("noroute")),
		fox.WithNoMethodHandler(w.handler("nomethod")),
		fox.WithOptionsHandler(w.handler("options")),
		fox.WithMiddlewareFor(fox.RouteHandler, w.mw("route")),
		fox.WithMiddlewareFor(fox.NoRouteHandler, w.mw("noroute")),
		fox.WithMiddlewareFor(fox.NoMethodHandler, w.mw("nomethod")),
		fox.WithMiddlewareFor(fox.OptionsHandler, w.mw("options")),
		fox.WithMiddlewareFor(fox.RedirectHandler, w.mw("redirect")),
	)...)
	if err != nil {
		panic(err)
	}
	w.f = f
	h := w.handler("route")
	f.MustHandle("GET", "/d/{tok}", h)
	f.MustHandle("GET", "/two/{a}/{tok}/x", h)
	f.MustHandle("GET", "/c/*{tok}", h)
	f.MustHandle("GET", "h.com/h/{tok}", h)
	f.MustHandle("GET", "/i/{tok}/", h, fox.WithIgnoreTrailingSlash(true))
	f.MustHandle("GET", "/r/{tok}/", h, fox.WithRedirectTrailingSlash(true))
	f.MustHandle("POST", "/m/{tok}", h)
	f.MustHandle("GET", "/s/static", h)
	f.MustHandle("GET", "/is/static/", h, fox.WithIgnoreTrailingSlash(true))
	f.MustHandle("GET", "/x/*{tok}/end", h)
	f.MustHandle("GET", "/y/*{a}/mid/*{tok}/end/", h, fox.WithIgnoreTrailingSlash(true))
	f.MustHandle("GET", "/z/*{a}/m/{tok}/{b}", h)
	f.MustHandle("GET", "ts.h.com/it/{tok}/", h, fox.WithIgnoreTrailingSlash(true))
	f.MustHandle("GET", "{a}.ts2.com/it/{tok}/", h, fox.WithIgnoreTrailingSlash(true))
	// hostname routes of other methods whose probing (405 / automatic OPTIONS) has to backtrack between hostname labels
	f.MustHandle("POST", "{a}.b.com/hp/{tok}", h)
	f.MustHandle("POST", "{a}.{b}.com/hq/{tok}", h)
	f.MustHandle("PUT", "{a}.b.com/hq/x/{tok}", h)
	return w
}

var shapes = []string{"ignored-tsr-static", "infix", "infix2-tsr", "direct", "two", "catchall", "host", "ignored-tsr", "redirect", "404", "405", "options", "options-star", "lookup", "lookup-nil", "clonewith", "static-then-param", "infix-then-params", "405-hostparam", "options-hostparam", "txn-lookup", "txn-lookup-nil", "writetxn-lookup", "setrequest", "escaped", "setwriter", "hijack", "host-ignored-tsr", "hostparam-ignored-tsr"}

type respW struct {
	h      http.Header
	status int
	body   []byte
}

func (r *respW) Header() http.Header { return r.h }
func (r *respW) WriteHeader(c int) {
	if r.status == 0 {
		r.status = c
	}
}
func (r *respW) Write(b []byte) (int, error) {
	if r.status == 0 {
		r.status = 200
	}
	r.body = append(r.body, b...)
	return len(b), nil
}

// hijackW is an underlying writer whose connection can be taken over.
type hijackW struct{ *respW }

func (h *hijackW) Hijack() (net.Conn, *bufio.ReadWriter, error) {
	a, b := net.Pipe()
	_ = b.Close()
	return a, bufio.NewReadWriter(bufio.NewReader(a), bufio.NewWriter(a)), nil
}

// ownW is an independent implementation of fox.ResponseWriter (a caller-supplied writer for Lookup).
type ownW struct {
	*respW
	n int
}

func (o *ownW) Write(b []byte) (int, error)       { o.n += len(b); return o.respW.Write(b) }
func (o *ownW) WriteString(s string) (int, error) { return o.Write([]byte(s)) }
func (o *ownW) ReadFrom(r io.Reader) (int64, error) {
	b, err := io.ReadAll(r)
	n, _ := o.Write(b)
	return int64(n), err
}
func (o *ownW) Status() int {
	if o.status == 0 {
		return 200
	}
	return o.status
}
func (o *ownW) Written() bool     { return o.status != 0 }
func (o *ownW) Size() int         { return o.n }
func (o *ownW) FlushError() error { return nil }
func (o *ownW) Hijack() (net.Conn, *bufio.ReadWriter, error) {
	return nil, nil, http.ErrNotSupported
}
func (o *ownW) Push(string, *http.PushOptions) error { return http.ErrNotSupported }
func (o *ownW) SetReadDeadline(time.Time) error      { return http.ErrNotSupported }
func (o *ownW) SetWriteDeadline(time.Time) error     { return http.ErrNotSupported }
func (o *ownW) EnableFullDuplex() error              { return http.ErrNotSupported }

// issue sends one request of the given shape and returns its expectation (with any problems found).
func (w *world) issue(n int64, shape string) *expect {
	tok := fmt.Sprintf("T%07d", n)
	e := &expect{tok: tok, shape: shape, scope: fox.RouteHandler, kind: "route"}
	method, host, path := "GET", "", ""
	P := func(k, v string) fox.Param { return fox.Param{Key: k, Value: v} }
	switch shape {
	case "direct", "lookup", "lookup-nil", "clonewith", "setrequest", "setwriter", "hijack", "txn-lookup", "txn-lookup-nil", "writetxn-lookup":
		path, e.pattern, e.params = "/d/"+tok, "/d/{tok}", []fox.Param{P("tok", tok)}
	case "escaped":
		// the wire form carries a needless escape: net/url keeps it in RawPath, the router routes on it and hands the raw
		// segment to the handler, while Path() is the decoded form
		path, e.pattern, e.params = "/d/"+tok, "/d/{tok}", []fox.Param{P("tok", "%54"+tok[1:])}
	case "two":
		path, e.pattern, e.params = "/two/a"+tok+"/"+tok+"/x", "/two/{a}/{tok}/x", []fox.Param{P("a", "a"+tok), P("tok", tok)}
	case "catchall":
		path, e.pattern, e.params = "/c/x/"+tok+"/y", "/c/*{tok}", []fox.Param{P("tok", "x/"+tok+"/y")}
	case "host":
		host, path, e.pattern, e.params = "h.com", "/h/"+tok, "h.com/h/{tok}", []fox.Param{P("tok", tok)}
	case "ignored-tsr":
		path, e.pattern, e.params = "/i/"+tok, "/i/{tok}/", []fox.Param{P("tok", tok)}
	case "host-ignored-tsr":
		host, path, e.pattern, e.params = "ts.h.com", "/it/"+tok, "ts.h.com/it/{tok}/", []fox.Param{P("tok", tok)}
	case "hostparam-ignored-tsr":
		host, path, e.pattern, e.params = "a"+tok+".ts2.com", "/it/"+tok, "{a}.ts2.com/it/{tok}/", []fox.Param{P("a", "a"+tok), P("tok", tok)}
	case "redirect":
		path, e.kind, e.scope = "/r/"+tok, "redirect", fox.RedirectHandler
	case "404":
		path, e.kind, e.scope = "/zz/"+tok, "noroute", fox.NoRouteHandler
	case "405":
		path, e.kind, e.scope = "/m/"+tok, "nomethod", fox.NoMethodHandler
	case "options":
		method, path, e.kind, e.scope = "OPTIONS", "/m/"+tok, "options", fox.OptionsHandler
	case "options-star":
		method, path, e.kind, e.scope = "OPTIONS", "*", "options", fox.OptionsHandler
	case "static-then-param":
		path, e.pattern = "/s/static", "/s/static"
	case "ignored-tsr-static":
		path, e.pattern = "/is/static", "/is/static/"
	case "infix":
		path, e.pattern, e.params = "/x/q/"+tok+"/r/end", "/x/*{tok}/end", []fox.Param{P("tok", "q/"+tok+"/r")}
	case "infix-then-params":
		path, e.pattern, e.params = "/z/q/"+tok+"/m/"+tok+"/b"+tok, "/z/*{a}/m/{tok}/{b}", []fox.Param{P("a", "q/"+tok), P("tok", tok), P("b", "b"+tok)}
	case "405-hostparam":
		host, path, e.kind, e.scope = "s"+tok+".b.com", "/hq/"+tok, "nomethod", fox.NoMethodHandler
	case "options-hostparam":
		method, host, path, e.kind, e.scope = "OPTIONS", "s"+tok+".b.com", "/hq/"+tok, "options", fox.OptionsHandler
	case "infix2-tsr":
		path, e.pattern, e.params = "/y/a"+tok+"/b/mid/"+tok+"/end", "/y/*{a}/mid/*{tok}/end/", []fox.Param{P("a", "a"+tok+"/b"), P("tok", tok)}
	}
	req := &http.Request{Method: method, Host: host, URL: &url.URL{Path: path, RawQuery: "t=" + tok}, Header: http.Header{"X-Token": {tok}},
		RemoteAddr: fmt.Sprintf("10.%d.%d.%d:%d", (n>>16)&255, (n>>8)&255, n&255, 1000+n%5000), Proto: "HTTP/1.1", ProtoMajor: 1, ProtoMinor: 1}
	if shape == "ignored-tsr-static" {
		req.URL.Path = "/is/static"
	}
	if shape == "escaped" {
		req.URL.RawPath = "/d/%54" + tok[1:]
	}
	if shape == "static-then-param" {
		// the path must still contain the token for the Path() check: use a query-only token and a fixed path
		req.URL.Path = "/s/static"
		e.tok = tok
	}
	req = req.WithContext(context.WithValue(context.Background(), expKey{}, e))
	e.req = req
	switch shape {
	case "lookup", "lookup-nil", "txn-lookup", "txn-lookup-nil", "writetxn-lookup":
		var own fox.ResponseWriter
		rw := &respW{h: http.Header{"X-Own": {tok}}}
		if shape == "lookup" || shape == "txn-lookup" {
			// a caller-supplied writer implementing fox.ResponseWriter on its own
			ow := &ownW{respW: rw}
			ow.WriteHeader(statusOf(tok))
			_, _ = ow.Write([]byte(tok))
			own = ow
		}
		var rte *fox.Route
		var cc fox.ContextCloser
		var tsr bool
		switch shape {
		case "txn-lookup", "txn-lookup-nil":
			// the same manual lookup through a read-only transaction
			_ = w.f.View(func(t *fox.Txn) error { rte, cc, tsr = t.Lookup(own, req); return nil })
		case "writetxn-lookup":
			t := w.f.Txn(true)
			rte, cc, tsr = t.Lookup(own, req)
			t.Abort()
		default:
			rte, cc, tsr = w.f.Lookup(own, req)
		}
		if rte == nil || tsr {
			e.fail("Lookup found no direct route")
			return e
		}
		e.seen.Add(1)
		verify(cc, e, "Lookup context")
		if cc.Writer() != own {
			e.fail("Lookup context: Writer() is not the writer supplied by the caller")
		}
		var cl fox.Context
		func() {
			defer func() {
				if p := recover(); p != nil {
					e.fail("Clone() of a Lookup context panicked: %v", p)
				}
			}()
			cl = cc.Clone()
		}()
		if cl != nil {
			verify(cl, e, "clone of Lookup context")
			st, sz, wr := 200, 0, false
			hdr := "map[]"
			if own != nil {
				st, sz, wr, hdr = own.Status(), own.Size(), own.Written(), fmt.Sprint(own.Header())
			}
			if cl.Writer().Status() != st || cl.Writer().Size() != sz || cl.Writer().Written() != wr || (own != nil && fmt.Sprint(cl.Writer().Header()) != hdr) {
				e.fail("clone of Lookup context: writer shows status=%d size=%d written=%t header=%v, the caller's writer has status=%d size=%d written=%t header=%s",
					cl.Writer().Status(), cl.Writer().Size(), cl.Writer().Written(), cl.Writer().Header(), st, sz, wr, hdr)
			}
			w.mu.Lock()
			if len(w.clones) < 4000 {
				w.clones = append(w.clones, held{cl, e, st, sz, wr, hdr})
			}
			w.mu.Unlock()
		}
		cc.Close()
		return e
	}
	rw := &respW{h: http.Header{}}
	if shape == "hijack" {
		w.f.ServeHTTP(&hijackW{rw}, req)
	} else {
		w.f.ServeHTTP(rw, req)
	}
	if e.seen.Load() != 1 {
		e.fail("%d handler invocations saw this request (expected exactly 1)", e.seen.Load())
	}
	switch e.kind {
	case "redirect":
		if rw.status != 301 || rw.h.Get("Location") == "" || !strings.Contains(rw.h.Get("Location"), tok) {
			e.fail("redirect response: status=%d location=%q", rw.status, rw.h.Get("Location"))
		}
	default:
		if rw.status != statusOf(tok) || string(rw.body) != tok || rw.h.Get("X-Resp") != tok {
			e.fail("response: status=%d body=%q X-Resp=%q, expected %d %q", rw.status, rw.body, rw.h.Get("X-Resp"), statusOf(tok), tok)
		}
	}
	return e
}

func (w *world) report(e *expect, prevShape string) {
	for _, p := range e.problems {
		w.run.Violate("leak|"+e.shape+"|after="+prevShape+"|"+firstWords(p), fmt.Sprintf("request %s (shape %s, previous request shape %s): %s", e.tok, e.shape, prevShape, p), map[string]string{"shape": e.shape, "previous": prevShape})
	}
}

func firstWords(s string) string {
	if i := strings.IndexByte(s, ':'); i > 0 {
		return s[:i]
	}
	if len(s) > 40 {
		return s[:40]
	}
	return s
}

func (w *world) checkClones(stage string) {
	w.mu.Lock()
	defer w.mu.Unlock()
	for _, h := range w.clones {
		e := &expect{tok: h.e.tok, shape: h.e.shape, req: h.e.req, pattern: h.e.pattern, params: h.e.params, scope: h.e.scope, kind: h.e.kind}
		// a clone carries a clone of the request: compare by value through the same expectation pointer
		c := h.c
		func() {
			defer func() {
				if p := recover(); p != nil {
					e.fail("clone getters panicked: %v", p)
				}
			}()
			if got, _ := c.Request().Context().Value(expKey{}).(*expect); got != h.e {
				e.fail("clone: Request() no longer belongs to its request")
			}
			e2 := *h.e
			_ = e2
			if c.Header("X-Token") != e.tok || c.QueryParam("t") != e.tok || c.Pattern() != e.pattern || c.Scope() != e.scope {
				e.fail("clone: Header/Query/Pattern/Scope = %q %q %q %d", c.Header("X-Token"), c.QueryParam("t"), c.Pattern(), c.Scope())
			}
			var ps []fox.Param
			for p := range c.Params() {
				ps = append(ps, p)
			}
			if fmt.Sprint(ps) != fmt.Sprint(e.params) {
				e.fail("clone: Params()=%v, expected %v", ps, e.params)
			}
			wr := c.Writer()
			if wr.Status() != h.status || wr.Size() != h.size || wr.Written() != h.written || fmt.Sprint(wr.Header()) != h.hdr {
				e.fail("clone: writer shows status=%d size=%d written=%t header=%v, at clone time it was %d %d %t %s", wr.Status(), wr.Size(), wr.Written(), wr.Header(), h.status, h.size, h.written, h.hdr)
			}
		}()
		w.run.Count("clone_reverifications", 1)
		for _, p := range e.problems {
			w.run.Violate("clone-unstable|"+e.shape+"|"+firstWords(p), fmt.Sprintf("clone of request %s (shape %s) re-read %s: %s", e.tok, e.shape, stage, p), map[string]string{"shape": e.shape})
		}
	}
	w.clones = w.clones[:0]
}

func main() {
	run := kit.Start("C12", rule)
	defer run.Finish()
	if run.Mode() == "race" {
		concurrent(run)
		return
	}
	runtime.GOMAXPROCS(1)
	sequential(run, newWorld(run), 0, int64(run.Pick(20000, 5000000)))
	sequential(run, newWorldWith(run, true), 1<<40, int64(run.Pick(8000, 1500000)))
	generated(run)
	run.SetExtra("shape_pairs", fmt.Sprintf("every ordered pair of the %d request shapes is issued back to back at GOMAXPROCS=1 (the second request gets the context just released by the first) before the random phase; repeated on a router whose middleware forwards a CloneWith copy of the context on every scope", len(shapes)))
}

func sequential(run *kit.Run, w *world, base, n int64) {
	r := run.Rand(uint64(1 + base>>40))
	prev := "none"
	// all ordered pairs of shapes first (every shape right after every other shape), then random order
	var order []string
	for _, a := range shapes {
		for _, b := range shapes {
			order = append(order, a, b)
		}
	}
	for i := int64(0); i < n; i++ {
		shape := shapes[r.IntN(len(shapes))]
		if int(i) < len(order) {
			shape = order[i]
		}
		e := w.issue(base+i+1, shape)
		w.report(e, prev)
		run.Case(e.tok, prev != shape)
		run.Count("shape_"+shape, 1)
		if run.WantSample() {
			run.Sample(map[string]any{"token": e.tok, "shape": shape, "previous_shape": prev, "handler_invocations_seen": e.seen.Load()})
		}
		prev = shape
		if i%500 == 499 {
			// replace the tree, then re-read the retained clones
			_, _ = w.f.Handle("GET", fmt.Sprintf("/tmp/%d/{a}/{b}/{c}", i), w.handler("route"))
			if i%1000 == 999 {
				_, _ = w.f.Delete("GET", fmt.Sprintf("/tmp/%d/{a}/{b}/{c}", i-500))
			}
			w.checkClones("after later requests and a tree replacement")
		}
	}
	w.checkClones("at the end")
}

func concurrent(run *kit.Run) {
	w := newWorld(run)
	var ctr atomic.Int64
	var wg sync.WaitGroup
	var stop atomic.Bool
	n := int64(run.Pick(30000, 2000000))
	wg.Add(1)
	go func() { // writer: keeps replacing the tree (with more parameters, so the context pools differ)
		defer wg.Done()
		for i := 0; !stop.Load(); i++ {
			p := fmt.Sprintf("/tmp/%d/{a}/{b}/{c}/{d}", i)
			_, _ = w.f.Handle("GET", p, w.handler("route"))
			runtime.Gosched()
			_, _ = w.f.Delete("GET", p)
		}
	}()
	var rg sync.WaitGroup
	for g := 0; g < 16; g++ {
		rg.Add(1)
		go func(g int) {
			defer rg.Done()
			r := run.Rand(uint64(100 + g))
			for {
				i := ctr.Add(1)
				if i > n {
					return
				}
				shape := shapes[r.IntN(len(shapes))]
				e := w.issue(i, shape)
				w.report(e, "concurrent")
				run.Case(e.tok, true)
				if i%2000 == 0 {
					w.checkClones("during concurrent traffic")
				}
			}
		}(g)
	}
	rg.Wait()
	stop.Store(true)
	wg.Wait()
	w.checkClones("at the end")
	run.Sample(map[string]any{"mode": "16 goroutines issuing tokenised requests while a writer replaces the tree", "requests": n})
}

// generated: the fixed router of the shape phases cannot contain every structure that keeps state in a pooled
// context (backtracking stacks, hostname / path sub-lookups). Here random route sets are built and a shuffled
// sequence of requests - instantiations of the patterns, perturbations, sub-paths that start after a wildcard
// segment, hosts that enter the hostname tree and miss - is served twice on one goroutine at GOMAXPROCS=1, so each
// request runs on the context the previous one released. What the handler that ran saw (kind, route, parameters)
// must be what the reference matcher says for THIS request alone.
func generated(run *kit.Run) {
	sets := run.Pick(3000, 400000)
	r := run.Rand(77)
	var served int64
	for s := 0; s < sets; s++ {
		pf := gen.DefaultProfile
		if r.IntN(2) == 0 {
			pf = gen.HostProfile
		}
		pf.MaxRoutes = 8
		c := route.GenCase(r, route.GenOpts{Profile: pf, Probes: 10, Methods: []string{"GET", "POST"}})
		if len(c.Routes) == 0 {
			continue
		}
		nPlain := len(c.Reqs)
		var firsts []string
		for _, rs := range c.Routes {
			if !strings.HasPrefix(rs.Pattern, "/") && rs.Pattern[0] != '{' {
				firsts = append(firsts, rs.Pattern[:1])
			}
		}
		for _, rs := range c.Routes {
			host, path, _ := gen.Instantiate(r, rs.Pattern)
			segs := strings.Split(path, "/")
			for i := 2; i < len(segs); i++ {
				if r.IntN(2) == 0 {
					continue
				}
				h := []string{"", host, "zz"}[r.IntN(3)]
				if len(firsts) > 0 && r.IntN(2) == 0 {
					// a host without dots that shares its first byte with a registered hostname: enters the hostname tree, misses
					h = firsts[r.IntN(len(firsts))] + "bcdefghij"
				}
				c.Reqs = append(c.Reqs, route.Req{Method: rs.Method, Host: h, Path: "/" + strings.Join(segs[i:], "/")})
			}
		}
		b, err := route.Build(c)
		if err != nil {
			run.Inconclusive("fox.New: %v", err)
			return
		}
		order := append(r.Perm(len(c.Reqs)), r.Perm(len(c.Reqs))...)
		// and every derived probe right after three random plain ones
		for i := nPlain; i < len(c.Reqs); i++ {
			for k := 0; k < 3 && nPlain > 0; k++ {
				order = append(order, r.IntN(nPlain), i)
			}
		}
		prev := "none"
		for _, qi := range order {
			q := c.Reqs[qi]
			if gen.HasEmptySegment(q.MatchPath()) {
				continue
			}
			id := c.RoutesString() + "|" + q.String()
			full := b.Ref(q)
			direct := ref.LookupDirect(b.ByMethod[q.Method], q.Host, q.MatchPath())
			var sv route.ServeObs
			if run.Guard("generated-panic|"+id, c, func() { sv = b.Serve(q) }) {
				continue
			}
			served++
			if full.Unspec || direct.Unspec {
				continue
			}
			run.Case("generated|"+id+"|after "+prev, true)
			fail := func(why string) {
				run.Violate("leak|generated|"+id, fmt.Sprintf("%s\nroutes: %s\nrequest: %s (served right after: %s)\nreference for this request: direct=%q %v slash-adjusted=%q\nthe handler that ran saw: kind=%q pattern=%q params=%v route-nil=%t",
					why, c.RoutesString(), q, prev, direct.Pattern, direct.Params, full.Pattern, sv.Seen.Kind, sv.Seen.CtxPattern, sv.Seen.Params, sv.Seen.RouteNil), c)
			}
			switch {
			case direct.Pattern != "" && !(full.Tsr && full.ViaHost):
				if sv.Seen.Kind != "route" || sv.Seen.CtxPattern != direct.Pattern || !route.SameParams(sv.Seen.Params, direct.Params) {
					fail("the context handed to the handler does not describe the current request")
				}
			case direct.Pattern == "":
				// no route serves it (no slash option is enabled): the no-route handler runs and its context exposes nothing
				if sv.Seen.Kind != "noroute" || !sv.Seen.RouteNil || sv.Seen.CtxPattern != "" || len(sv.Seen.Params) != 0 {
					fail("no route serves this request, yet the context shows a route or parameters (of an earlier request)")
				}
			}
			prev = q.String()
		}
	}
	run.Count("generated_sequence_requests", served)
}
