// C11: unserved requests get the right 404/405/OPTIONS answer and Allow header.
// Oracle: the option table of the property evaluated over the reference matcher run once per method; recording
// handlers installed for all special roles report which one ran and what its Context exposed.
package main

import (
	"fmt"
	"sort"
	"strings"

	"foxverif/conc"
	"foxverif/gen"
	"foxverif/kit"
	"foxverif/ref"
	"foxverif/route"

	"github.com/tigerwill90/fox"
)

const rule = "cases = (route set spread over GET/POST/PATCH/OPTIONS/custom FOO with per-route trailing-slash options, one of the four (method-not-allowed, auto-OPTIONS) combinations, " +
	"request with any of those methods or an unknown one, incl. the target '*' with any method and the empty path of an absolute-form target; a third of the cases after delete churn that also adds and removes routes of verbs PUT/DELETE/BAR); distinct by (route set, options, request); non-trivial when the request is unserved and at least one other method has a route for that host and path (directly or slash-adjusted)"

func main() {
	run := kit.Start("C11", rule)
	defer run.Finish()
	if run.ReplayIn != "" {
		var c route.Case
		if err := kit.LoadReplay(run.ReplayIn, &c); err != nil {
			run.Inconclusive("cannot load replay: %v", err)
			return
		}
		check(run, c)
		return
	}
	sets := run.Pick(3000, 3000000)
	const per = 50
	run.Parallel(sets/per, func(batch int) {
		r := run.Rand(uint64(batch))
		for i := 0; i < per; i++ {
			pf := gen.DefaultProfile
			pf.MaxSeg = 3
			pf.MaxRoutes = 8
			if r.IntN(3) == 0 {
				pf = gen.HostProfile
			}
			c := route.GenCase(r, route.GenOpts{Profile: pf, Probes: 12, SlashModes: true, Special: true, AllMethods: true, Methods: []string{"GET", "POST", "PATCH", "OPTIONS", "FOO"}})
			if len(c.Routes) == 0 {
				continue
			}
			// force each of the four combinations equally often
			c.Global = filter(c.Global, "405", "options")
			switch (batch*per + i) % 4 {
			case 1:
				c.Global = append(c.Global, "405")
			case 2:
				c.Global = append(c.Global, "options")
			case 3:
				c.Global = append(c.Global, "405", "options")
			}
			if r.IntN(3) == 0 {
				c.Global = append(c.Global, "clonewith-mw")
			}
			c.Reqs = append(c.Reqs, route.Req{Method: "OPTIONS", Path: "*"})
			// the target '*' with other methods, and the empty path of an absolute-form target without a path
			// ("GET http://example.com HTTP/1.1"): no pattern matches either, whatever the method
			for _, m := range []string{"GET", "POST", "FOO", "OPTIONS", "PATCH"} {
				if r.IntN(2) == 0 {
					c.Reqs = append(c.Reqs, route.Req{Method: m, Path: "*"})
				}
				if r.IntN(2) == 0 {
					q := route.Req{Method: m, Path: ""}
					if len(c.Reqs) > 0 {
						q.Host = c.Reqs[r.IntN(len(c.Reqs))].Host
					}
					c.Reqs = append(c.Reqs, q)
				}
			}
			var extra []route.Req
			for _, q := range c.Reqs[:len(c.Reqs)/2] {
				t := q
				if strings.HasSuffix(t.Path, "/") && len(t.Path) > 1 {
					t.Path = t.Path[:len(t.Path)-1]
				} else {
					t.Path += "/"
				}
				extra = append(extra, t)
			}
			// the same requests as a client could send them with percent-escapes (the router routes on the escaped form,
			// for the request's own method and for the probing of the other methods alike)
			for _, q := range c.Reqs[:len(c.Reqs)/2] {
				if t, ok := route.Escaped(r, q); ok {
					extra = append(extra, t)
				}
			}
			// hosts as clients send them: with a port, with a trailing dot
			for _, q := range c.Reqs[:len(c.Reqs)/2] {
				if q.Host != "" && !strings.ContainsAny(q.Host, ":[") && r.IntN(3) == 0 {
					t := q
					t.Host += []string{":8080", ":80", "."}[r.IntN(3)]
					extra = append(extra, t)
				}
			}
			c.Reqs = append(c.Reqs, extra...)
			if r.IntN(3) == 0 {
				c.Churn = r.Uint64() | 1
				c.ChurnMethods = []string{"PUT", "DELETE", "BAR"}
			}
			check(run, c)
		}
	})
	// while transactions change which methods serve a path, every 404/405/OPTIONS answer is the one of a single
	// committed state (the request's own lookup and the probing of the other methods use the same tree)
	conc.AllowFlip(run)
	conc.MethodFlip(run)
}

// (the answer of one unserved request comes from one routing state: see conc.AllowFlip / conc.MethodFlip, run from main)

func filter(in []string, drop ...string) []string {
	var out []string
outer:
	for _, s := range in {
		for _, d := range drop {
			if s == d {
				continue outer
			}
		}
		out = append(out, s)
	}
	return out
}

func has(l []string, s string) bool {
	for _, x := range l {
		if x == s {
			return true
		}
	}
	return false
}

func setOf(h string) []string {
	var out []string
	for _, p := range strings.Split(h, ",") {
		if p = strings.TrimSpace(p); p != "" {
			out = append(out, p)
		}
	}
	sort.Strings(out)
	return out
}

func check(run *kit.Run, c route.Case) {
	var b *route.Built
	run.Guard("build|"+c.RoutesString(), c, func() {
		var err error
		if b, err = route.Build(c); err != nil {
			run.Inconclusive("fox.New: %v", err)
			b = nil
		}
	})
	if b == nil {
		return
	}
	if b.Churned > 0 {
		run.Count("cases_with_delete_churn", 1)
		run.Count("churn_routes_added_and_deleted", int64(b.Churned))
	}
	if b.ChurnErr != "" {
		run.Violate("churn|"+c.RoutesString(), b.ChurnErr, c)
	}
	opt405, optOptions := has(c.Global, "405"), has(c.Global, "options")
	for i, q := range c.Reqs {
		if gen.HasEmptySegment(q.MatchPath()) {
			continue
		}
		id := c.RoutesString() + "|" + q.String()
		run.Guard("probe|"+id, c, func() {
			s := b.Serve(q)
			// serving methods according to the reference
			unspec := false
			var serving []string
			for _, m := range b.Methods {
				o := ref.Lookup(b.ByMethod[m], q.Host, q.MatchPath())
				unspec = unspec || o.Unspec
				if o.Pattern == "" {
					continue
				}
				if !o.Tsr || b.SlashMode(m, o.Pattern) == "ignore" {
					serving = append(serving, m)
				}
			}
			sort.Strings(serving)
			own := b.Ref(q)
			ownServed := own.Pattern != "" && (!own.Tsr || (q.Method != "CONNECT" && q.Path != "/" && (b.SlashMode(q.Method, own.Pattern) == "ignore" || (b.SlashMode(q.Method, own.Pattern) == "redirect" && q.MatchPath() == ref.CleanPath(q.MatchPath())))))
			if q.Path == "*" {
				ownServed = false
			}
			if unspec || own.Unspec {
				run.Count("ref_unspecified(skipped)", 1)
				return
			}
			fail := func(why string) {
				run.Violate("special|"+id, fmt.Sprintf("%s\nroutes: %s\nrequest: %s\nmethods serving this host and path per reference: %v\nfox: handler=%q status=%d allow=%q(set=%t) redirect=%t ctx.route-nil=%t ctx.pattern=%q ctx.params=%v scope=%d",
					why, c.RoutesString(), q, serving, s.Seen.Kind, s.Status, s.Allow, s.HasAllow, s.Seen.Redirect, s.Seen.RouteNil, s.Seen.CtxPattern, s.Seen.Params, s.Seen.Scope), c)
			}
			// the redirect handler is one of "these handlers": whatever request it follows on the recycled context, its
			// context exposes no route, pattern or parameters and reports the redirect scope
			if s.Seen.Redirect && s.Seen.RedirSeen != nil {
				rs := s.Seen.RedirSeen
				run.Count("redirect_handler_contexts_checked", 1)
				if !rs.RouteNil || rs.CtxPattern != "" || len(rs.Params) != 0 || rs.Scope != fox.RedirectHandler {
					fail(fmt.Sprintf("the redirect handler's Context must expose no route, no pattern, no parameters and its own scope; it shows route-nil=%t pattern=%q params=%v scope=%d", rs.RouteNil, rs.CtxPattern, rs.Params, rs.Scope))
				}
			}
			if ownServed {
				run.Count("served(not this property)", 1)
				run.Case(id, false)
				if s.Seen.Kind != "route" && !s.Seen.Redirect {
					fail("the reference says the request is served (route or trailing-slash action) but a special handler ran")
				}
				return
			}
			if s.Seen.Kind == "route" || s.Seen.Redirect {
				fail("the reference says the request is unserved but a route or the redirect handler ran")
				return
			}
			// expected special handler and Allow set
			var wantKind string
			var wantAllow []string
			others := filter(serving, q.Method)
			switch {
			case q.Method == "OPTIONS" && optOptions:
				var set []string
				if q.Path == "*" {
					for _, m := range b.Methods {
						if m != "OPTIONS" && len(b.ByMethod[m]) > 0 {
							set = append(set, m)
						}
					}
				} else {
					set = serving
				}
				if len(set) > 0 {
					wantKind = "options"
					wantAllow = append(filter(set, "OPTIONS"), "OPTIONS")
				} else {
					wantKind = "noroute"
				}
			case opt405 && len(others) > 0:
				wantKind = "nomethod"
				wantAllow = others
			default:
				wantKind = "noroute"
			}
			sort.Strings(wantAllow)
			run.Case(id, len(others) > 0 || wantKind == "options")
			run.Count("unserved_expected_"+wantKind, 1)
			if s.Seen.Kind != wantKind {
				fail(fmt.Sprintf("expected the %s handler", wantKind))
				return
			}
			got := setOf(s.Allow)
			switch wantKind {
			case "noroute":
				if s.HasAllow {
					fail("no Allow header is expected with the no-route handler")
				}
			case "options":
				if strings.Join(got, ",") != strings.Join(wantAllow, ",") {
					fail(fmt.Sprintf("Allow set %v, expected exactly %v", got, wantAllow))
				}
			case "nomethod":
				// OPTIONS in a 405 Allow when auto-OPTIONS is on is not specified either way: ignored
				g2, w2 := got, wantAllow
				if optOptions {
					g2, w2 = filter(got, "OPTIONS"), filter(wantAllow, "OPTIONS")
				}
				if strings.Join(g2, ",") != strings.Join(w2, ",") {
					fail(fmt.Sprintf("Allow set %v, expected exactly %v", got, wantAllow))
				}
				if has(got, q.Method) {
					fail("Allow lists the request method itself")
				}
			}
			scopes := map[string]fox.HandlerScope{"noroute": fox.NoRouteHandler, "nomethod": fox.NoMethodHandler, "options": fox.OptionsHandler}
			if !s.Seen.RouteNil || s.Seen.CtxPattern != "" || len(s.Seen.Params) != 0 || s.Seen.Scope != scopes[wantKind] {
				fail("the special handler's Context must expose no route, no pattern, no parameters and its own scope")
			}
			if s.Seen.Calls != 1 {
				fail("exactly one handler must run")
			}
			if i == 0 && run.WantSample() {
				run.Sample(map[string]any{"routes": c.RoutesString(), "request": q.String(), "expected_handler": wantKind, "expected_allow": wantAllow, "fox_allow": s.Allow})
			}
		})
	}
}
