// C18: client-IP resolvers return exactly the designated, unspoofable entry.
// Oracles: reference strategies run on a ground-truth entry list (every header entry is generated together with
// what it is: a valid public/private address in some notation, or junk), a metamorphic spoof monitor (anything
// prepended on the left never changes the result of a rightmost strategy), and an audit of the ranges trusted by
// default against an embedded table of IANA special-purpose blocks (one-directional: trusted => special).
package main

import (
	"fmt"
	"math"
	"math/rand/v2"
	"net"
	"net/http"
	"net/url"
	"strings"

	"foxverif/kit"

	"github.com/tigerwill90/fox"
	"github.com/tigerwill90/fox/clientip"
)

const rule = "cases = (header line lists for X-Forwarded-For / Forwarded built from entries with ground truth: public/private IPv4/IPv6 in plain, port, bracket, zone, quoted, IPv4-mapped notations, Forwarded parameters, junk, empty, obfuscated) " +
	"x (resolver and its parameters: counts 1-4 and huge (up to MaxUint), limits 1-5 and huge (up to MaxUint), default and optional range sets); each case is also re-run with attacker-chosen material prepended on the left; " +
	"distinct by (header lists, resolver); non-trivial when the list has >= 2 entries; plus the default-range audit over one address per IPv4 /16, range boundaries and IPv6 samples"

type entry struct {
	text    string
	valid   bool
	ip      string // canonical result (with %zone) when valid
	private bool   // inside loopback/link-local/private space (when valid)
}

var pub4 = []string{"8.8.8.8", "1.1.1.1", "93.184.216.34", "203.0.114.9", "192.0.3.7", "198.17.255.1", "100.63.0.1", "11.0.0.1", "172.32.0.1", "193.168.1.1", "223.255.255.1", "192.18.0.1", "192.19.255.254"}
var priv4 = []string{"10.0.0.1", "10.255.255.254", "172.16.0.1", "172.31.255.1", "192.168.1.1", "127.0.0.1", "169.254.10.10", "100.64.0.1", "192.0.2.55", "198.18.0.1", "198.19.255.254"}
var pub6 = []string{"2606:4700:4700::1111", "2a00:1450:4001:81b::200e", "2400:cb00::1"}
var priv6 = []string{"::1", "fe80::1", "fc00::1", "fd12:3456::1", "2001:db8::7"}
var junk = []string{"\"", "unknown", "_hidden", "", "junk", "1.2.3", "1.2.3.4.5", "gggg::1", "1.2.3.4:80:90", "0.0.0.0", "::", "-", "a.b.c.d", "300.1.1.1", "1.1.1.1 2.2.2.2", "8.8.8.8%a%b", "[2606:4700::1111%x%y]:443", "fe80::1%a%b", "%eth0", "::ffff:0.0.0.0", "::ffff:0:0", "[::ffff:0.0.0.0]:80", "0:0:0:0:0:ffff:0:0", "0.0.0.0:80", "[::]:80", "[9.9.9.9:80]", "[9.9.9.9:]", "[[2001:4860:4860::8888]:443]", "[[2001:4860:4860::8888]]", "[8.8.4.4:53]:53", "[2001:4860:4860::8844:x]"}

func genEntry(r *rand.Rand, forwarded bool) entry {
	if r.IntN(5) == 0 {
		j := junk[r.IntN(len(junk))]
		e := entry{text: j}
		if forwarded {
			switch r.IntN(4) {
			case 0:
				e.text = "for=" + j
			case 1:
				e.text = "proto=https;by=" + pub4[r.IntN(len(pub4))] // no for= part at all
			case 2:
				e.text = `for="` + j + `"`
			}
			if strings.Contains(e.text, " ") {
				e.text = "for=unknown"
			}
		}
		return e
	}
	var base string
	var private, v6 bool
	switch r.IntN(4) {
	case 0:
		base = pub4[r.IntN(len(pub4))]
	case 1:
		base, private = priv4[r.IntN(len(priv4))], true
	case 2:
		base, v6 = pub6[r.IntN(len(pub6))], true
	default:
		base, private, v6 = priv6[r.IntN(len(priv6))], true, true
	}
	e := entry{valid: true, ip: net.ParseIP(base).String(), private: private}
	text := base
	zone := ""
	if v6 && strings.HasPrefix(base, "fe80") && r.IntN(2) == 0 {
		// zone identifiers are case-sensitive and may hold digits, dots and hyphens
		zone = []string{"eth0", "Eth0", "WLAN-1", "en0.100", "1"}[r.IntN(5)]
		e.ip += "%" + zone
	}
	if !v6 && r.IntN(6) == 0 {
		text = "::ffff:" + base // IPv4-mapped
		v6 = true
	}
	if zone != "" {
		text += "%" + zone
	}
	switch r.IntN(4) {
	case 0: // with port
		if v6 {
			text = "[" + text + "]:" + fmt.Sprint(1024+r.IntN(5000))
		} else {
			text += ":" + fmt.Sprint(1024+r.IntN(5000))
		}
	case 1:
		if v6 {
			text = "[" + text + "]"
		}
	}
	if forwarded {
		key := []string{"for", "For", "FOR"}[r.IntN(3)]
		if v6 || strings.Contains(text, ":") || r.IntN(3) == 0 {
			text = key + `="` + text + `"`
		} else {
			text = key + "=" + text
		}
		switch r.IntN(6) {
		case 0:
			text += ";proto=https"
		case 1:
			text = "by=" + priv4[r.IntN(len(priv4))] + ";" + text
		case 2:
			text = "host=example.com; " + text + " ;proto=http"
		case 3: // for= is the fourth parameter and an extension parameter follows
			text = "by=" + priv4[r.IntN(len(priv4))] + ";host=example.com;proto=https;" + text + ";ext=1"
		case 4: // for= is the fourth and last parameter
			text = "proto=http;by=_gw;host=h;" + text
		}
	}
	// optional whitespace around a list item: spaces and horizontal tabs, on either side
	switch r.IntN(8) {
	case 0:
		text = " " + text + "  "
	case 1:
		text = "\t" + text
	case 2:
		text += "\t"
	case 3:
		text = " \t" + text + "\t "
	}
	e.text = text
	return e
}

type headers struct {
	lines [][]entry
}

func (h headers) values() []string {
	var out []string
	for _, l := range h.lines {
		var parts []string
		for _, e := range l {
			parts = append(parts, e.text)
		}
		sep := ","
		out = append(out, strings.Join(parts, sep))
	}
	return out
}

func (h headers) flat() []entry {
	var out []entry
	for _, l := range h.lines {
		out = append(out, l...)
	}
	return out
}

func genHeaders(r *rand.Rand, forwarded bool) headers {
	var h headers
	nl := 1 + r.IntN(3)
	if r.IntN(12) == 0 {
		nl = 0
	}
	for i := 0; i < nl; i++ {
		var l []entry
		for j, n := 0, 1+r.IntN(4); j < n; j++ {
			l = append(l, genEntry(r, forwarded))
		}
		h.lines = append(h.lines, l)
	}
	return h
}

func ctxFor(key string, vals []string, remote string, extra http.Header) fox.Context {
	req := &http.Request{Method: "GET", URL: &url.URL{Path: "/"}, Header: http.Header{}, RemoteAddr: remote}
	if vals != nil {
		req.Header[key] = vals
	}
	for k, v := range extra {
		req.Header[k] = v
	}
	return fox.NewTestContextOnly(nullW{}, req)
}

type nullW struct{}

func (nullW) Header() http.Header         { return http.Header{} }
func (nullW) Write(b []byte) (int, error) { return len(b), nil }
func (nullW) WriteHeader(int)             {}

func result(ip *net.IPAddr, err error) string {
	if err != nil {
		return "error"
	}
	if ip == nil {
		return "nil-without-error"
	}
	return ip.String()
}

func main() {
	run := kit.Start("C18", rule)
	defer run.Finish()
	n := run.Pick(20000, 10000000)
	run.Parallel(n/500, func(b int) {
		r := run.Rand(uint64(b))
		for i := 0; i < 500; i++ {
			one(run, r)
		}
	})
	single(run)
	audit(run)
	independence(run)
	contextPath(run)
}

// independence: every resolver keeps the ranges it was built with, whatever is built afterwards. Batches of
// RightmostNonPrivate / LeftmostNonPrivate resolvers are created one after the other from random sequences of the
// range options (enabled and disabled, in any order); each is queried right away and again after all the others
// exist, with one probe address of each family at the decisive position. Model: with no option enabled the default
// table applies (all families); otherwise exactly the union of the enabled families.
func independence(run *kit.Run) {
	type fam int
	const (
		loop fam = iota
		link
		priv
		pub
	)
	probes := []struct {
		ip string
		f  fam
	}{{"127.0.0.1", loop}, {"::1", loop}, {"127.200.1.1", loop}, {"169.254.10.10", link}, {"fe80::1", link}, {"10.1.2.3", priv}, {"192.168.1.1", priv}, {"172.20.0.1", priv}, {"100.64.0.1", priv}, {"fc00::1", priv}, {"2001:db8::7", priv}, {"9.9.9.9", pub}, {"2606:4700::1111", pub}}
	type built struct {
		right   bool
		fams    [3]bool
		any     bool
		res     fox.ClientIPResolver
		desc    string
		queried int
	}
	query := func(b *built, stage string) {
		for _, p := range probes {
			trusted := p.f != pub && (!b.any || b.fams[p.f])
			var vals []string
			want := ""
			if b.right {
				vals = []string{"8.8.8.8, " + p.ip}
				want = p.ip
				if trusted {
					want = "8.8.8.8"
				}
			} else {
				vals = []string{p.ip + ", 8.8.4.4"}
				want = p.ip
				if trusted {
					want = "8.8.4.4"
				}
			}
			got := result(b.res.ClientIP(ctxFor("X-Forwarded-For", vals, "192.0.2.200:4444", nil)))
			b.queried++
			run.Eval(1)
			if got != want {
				run.Violate("resolver-ranges|"+b.desc+"|"+p.ip, fmt.Sprintf("%s queried %s with X-Forwarded-For=%q returned %s, its own options designate %s", b.desc, stage, vals, got, want), map[string]string{"resolver": b.desc, "probe": p.ip, "stage": stage})
			}
		}
	}
	rounds := run.Pick(200, 20000)
	r := run.Rand(4242)
	var all []*built
	for round := 0; round < rounds; round++ {
		var batch []*built
		for k := 0; k < 2+r.IntN(5); k++ {
			b := &built{right: r.IntN(2) == 0}
			var names []string
			var ro []clientip.TrustedRangeOption
			var lo []clientip.BlacklistRangeOption
			for j, n := 0, r.IntN(5); j < n; j++ {
				f, on := fam(r.IntN(3)), r.IntN(4) > 0
				if on {
					b.fams[f], b.any = true, true
				}
				names = append(names, fmt.Sprintf("%s(%t)", []string{"Loopback", "LinkLocal", "PrivateNet"}[f], on))
				switch f {
				case loop:
					ro, lo = append(ro, clientip.TrustLoopback(on)), append(lo, clientip.ExcludeLoopback(on))
				case link:
					ro, lo = append(ro, clientip.TrustLinkLocal(on)), append(lo, clientip.ExcludeLinkLocal(on))
				default:
					ro, lo = append(ro, clientip.TrustPrivateNet(on)), append(lo, clientip.ExcludePrivateNet(on))
				}
			}
			var err error
			if b.right {
				b.res, err = clientip.NewRightmostNonPrivate(clientip.XForwardedForKey, ro...)
				b.desc = fmt.Sprintf("RightmostNonPrivate(Trust %v)", names)
			} else {
				b.res, err = clientip.NewLeftmostNonPrivate(clientip.XForwardedForKey, 5, lo...)
				b.desc = fmt.Sprintf("LeftmostNonPrivate(Exclude %v)", names)
			}
			if err != nil {
				run.Violate("ctor", fmt.Sprintf("%s: %v", b.desc, err), nil)
				continue
			}
			query(b, "right after its creation")
			batch = append(batch, b)
		}
		// every resolver built so far (the last 60 are kept) is asked again after each batch
		all = append(all, batch...)
		if len(all) > 60 {
			all = all[len(all)-60:]
		}
		for _, b := range all {
			query(b, "again after more resolvers were created")
		}
		run.Case(fmt.Sprintf("independence|%d", round), true)
	}
	run.Count("resolver_batches", int64(rounds))
}

// contextPath: Context.ClientIP hands the CURRENT request to the configured resolver: after the request of a context
// is replaced (SetRequest, CloneWith) the answer follows the new request.
func contextPath(run *kit.Run) {
	res, err := clientip.NewRightmostNonPrivate(clientip.XForwardedForKey)
	if err != nil {
		run.Violate("ctor", err.Error(), nil)
		return
	}
	f, err := fox.New(fox.WithClientIPResolver(res))
	if err != nil {
		run.Inconclusive("fox.New: %v", err)
		return
	}
	mk := func(xff string) *http.Request {
		h := http.Header{}
		if xff != "" {
			h.Set("X-Forwarded-For", xff)
		}
		return &http.Request{Method: "GET", URL: &url.URL{Path: "/ip"}, Header: h, RemoteAddr: "192.0.2.200:4444", Proto: "HTTP/1.1", ProtoMajor: 1, ProtoMinor: 1}
	}
	seqs := [][]string{{"6.6.6.6", "203.0.114.77"}, {"6.6.6.6", ""}, {"", "7.7.7.7"}, {"10.0.0.1", "8.8.8.8, 10.0.0.1"}, {"1.1.1.1", "junk"}, {"1.1.1.1, 2.2.2.2", "2.2.2.2, 1.1.1.1", "3.3.3.3"}}
	var cur []string
	check := func(c fox.Context, xff, how string) {
		want := result(res.ClientIP(ctxFor("X-Forwarded-For", hv(xff), "192.0.2.200:4444", nil)))
		got := result(c.ClientIP())
		run.Eval(1)
		if got != want {
			run.Violate("context-clientip|"+how, fmt.Sprintf("Context.ClientIP() %s returned %s; the resolver designates %s for the current request (X-Forwarded-For=%q; sequence %q)", how, got, want, xff, cur), map[string]any{"sequence": cur, "how": how})
		}
	}
	f.MustHandle("GET", "/ip", func(c fox.Context) {
		check(c, cur[0], "on the original request")
		check(c, cur[0], "asked a second time")
		for i, x := range cur[1:] {
			cw := c.CloneWith(c.Writer(), mk(x))
			check(cw, x, fmt.Sprintf("on a CloneWith copy carrying request #%d", i+2))
			cw.Close()
			c.SetRequest(mk(x))
			check(c, x, fmt.Sprintf("after SetRequest #%d", i+1))
		}
	})
	for round := 0; round < 3; round++ {
		for _, sq := range seqs {
			cur = sq
			run.Case(fmt.Sprintf("context-path|%q|%d", sq, round), true)
			run.Guard("context-path-panic", sq, func() { f.ServeHTTP(nullW{}, mk(sq[0])) })
		}
	}
}

func hv(x string) []string {
	if x == "" {
		return nil
	}
	return []string{x}
}

func one(run *kit.Run, r *rand.Rand) {
	forwarded := r.IntN(2) == 0
	key, hk := "X-Forwarded-For", clientip.XForwardedForKey
	if forwarded {
		key, hk = "Forwarded", clientip.ForwardedKey
	}
	h := genHeaders(r, forwarded)
	flat := h.flat()
	vals := h.values()
	id := fmt.Sprintf("%s|%q", key, vals)
	rev := make([]entry, len(flat))
	for i, e := range flat {
		rev[len(flat)-1-i] = e
	}
	// attacker material to prepend
	var spoofLine []string
	for k := 0; k < 1+r.IntN(3); k++ {
		spoofLine = append(spoofLine, genEntry(r, forwarded).text)
	}
	spoofed := append([]string{strings.Join(spoofLine, ", ")}, vals...)
	if len(vals) > 0 && r.IntN(2) == 0 {
		spoofed = append([]string{strings.Join(spoofLine, ",") + "," + vals[0]}, vals[1:]...)
	}
	check := func(name string, res fox.ClientIPResolver, want string, rightmost bool, skipSpoofIfErr bool) {
		rep := map[string]any{"header": key, "values": vals, "resolver": name}
		var got string
		if run.Guard("panic|"+name+"|"+id, rep, func() { got = result(res.ClientIP(ctxFor(key, vals, "192.0.2.200:4444", nil))) }) {
			return
		}
		run.Case(name+"|"+id, len(flat) >= 2)
		run.Count("resolver_"+strings.SplitN(name, "(", 2)[0], 1)
		if got != want {
			run.Violate("wrong-entry|"+name+"|"+id, fmt.Sprintf("%s on %s=%q returned %s, the documented strategy designates %s\nentries (left to right): %s", name, key, vals, got, want, describe(flat)), rep)
			return
		}
		if rightmost && !(skipSpoofIfErr && want == "error") {
			var got2 string
			run.Guard("panic-spoof|"+name+"|"+id, rep, func() { got2 = result(res.ClientIP(ctxFor(key, spoofed, "192.0.2.200:4444", nil))) })
			run.Count("spoof_comparisons", 1)
			if got2 != got {
				run.Violate("spoofable|"+name+"|"+id, fmt.Sprintf("%s: result changes from %s to %s when %q is prepended on the left\noriginal %s=%q\nspoofed  %s=%q", name, got, got2, spoofLine, key, vals, key, spoofed), rep)
			}
		}
		if run.WantSample() && len(flat) >= 3 {
			run.Sample(map[string]any{"header": key, "values": vals, "resolver": name, "designated": want})
		}
	}
	// rightmost trusted count
	for _, cnt := range []uint{1, 2, 3, 4, math.MaxUint, 1 << 63, 1<<32 + 1, 1<<63 + 2} {
		res, err := clientip.NewRightmostTrustedCount(hk, cnt)
		if err != nil {
			run.Violate("ctor", fmt.Sprintf("NewRightmostTrustedCount(%d): %v", cnt, err), nil)
			continue
		}
		want := "error"
		if cnt <= uint(len(rev)) && rev[cnt-1].valid {
			want = rev[cnt-1].ip
		}
		check(fmt.Sprintf("RightmostTrustedCount(%d)", cnt), res, want, true, cnt > uint(len(rev)))
	}
	// rightmost non private (default ranges)
	{
		res, _ := clientip.NewRightmostNonPrivate(hk)
		want := "error"
		for _, e := range rev {
			if e.valid && !e.private {
				want = e.ip
				break
			}
		}
		check("RightmostNonPrivate(default)", res, want, true, true)
	}
	// rightmost trusted range with an explicit range list
	{
		ranges, _ := clientip.AddressesAndRangesToIPNets("10.0.0.0/8", "172.16.0.0/12", "192.168.0.0/16", "127.0.0.0/8", "169.254.0.0/16", "100.64.0.0/10", "192.0.2.0/24", "198.18.0.0/15", "::1", "fe80::/10", "fc00::/7", "2001:db8::/32")
		res, err := clientip.NewRightmostTrustedRange(hk, clientip.TrustedIPRangeFunc(func() ([]net.IPNet, error) { return ranges, nil }))
		if err != nil {
			run.Violate("ctor", fmt.Sprintf("NewRightmostTrustedRange: %v", err), nil)
		} else {
			want := "error"
			for _, e := range rev {
				if e.valid && e.private {
					continue
				}
				if e.valid {
					want = e.ip
				}
				break
			}
			check("RightmostTrustedRange(private ranges)", res, want, true, true)
		}
		// the same ranges written by hand the other way the standard library allows: 16-byte IPv4 addresses with 4-byte
		// masks (net.IPv4 / net.ParseIP with net.CIDRMask(n, 32))
		hand := make([]net.IPNet, 0, len(ranges))
		for _, rg := range ranges {
			if v4 := rg.IP.To4(); v4 != nil {
				ones, _ := rg.Mask.Size()
				hand = append(hand, net.IPNet{IP: net.IPv4(v4[0], v4[1], v4[2], v4[3]), Mask: net.CIDRMask(ones, 32)})
			} else {
				hand = append(hand, rg)
			}
		}
		if res2, err := clientip.NewRightmostTrustedRange(hk, clientip.TrustedIPRangeFunc(func() ([]net.IPNet, error) { return hand, nil })); err == nil {
			want := "error"
			for _, e := range rev {
				if e.valid && e.private {
					continue
				}
				if e.valid {
					want = e.ip
				}
				break
			}
			check("RightmostTrustedRange(private ranges, hand-built IPNets)", res2, want, true, true)
		}
	}
	// rightmost trusted range with an EMPTY list: nobody is trusted, the rightmost entry is the answer (an error if it
	// is not an address)
	for _, empty := range [][]net.IPNet{nil, {}} {
		empty := empty
		res, err := clientip.NewRightmostTrustedRange(hk, clientip.TrustedIPRangeFunc(func() ([]net.IPNet, error) { return empty, nil }))
		if err != nil {
			run.Violate("ctor", fmt.Sprintf("NewRightmostTrustedRange(empty list): %v", err), nil)
			continue
		}
		want := "error"
		if len(rev) > 0 && rev[0].valid {
			want = rev[0].ip
		}
		check("RightmostTrustedRange(no trusted range)", res, want, true, true)
	}
	// leftmost non private with limits
	for _, lim := range []uint{1, 2, 3, 5, math.MaxUint, 1 << 63, 1<<32 + 2, 1<<63 + 1} {
		res, err := clientip.NewLeftmostNonPrivate(hk, lim)
		if err != nil {
			run.Violate("ctor", fmt.Sprintf("NewLeftmostNonPrivate(%d): %v", lim, err), nil)
			continue
		}
		want := "error"
		for i, e := range flat {
			if uint(i) >= lim {
				break
			}
			if e.valid && !e.private {
				want = e.ip
				break
			}
		}
		check(fmt.Sprintf("LeftmostNonPrivate(limit=%d)", lim), res, want, false, false)
	}
	// chain: first success
	{
		a, _ := clientip.NewRightmostNonPrivate(hk)
		b, _ := clientip.NewRightmostTrustedCount(hk, 1)
		// a longer chain whose first resolvers all fail (single-address headers that are absent) gives the same answer
		var many []fox.ClientIPResolver
		for _, hn := range []string{"X-Absent-1", "X-Absent-2", "X-Absent-3", "X-Absent-4", "X-Absent-5", "X-Absent-6"} {
			if sr, err := clientip.NewSingleIPHeader(hn); err == nil {
				many = append(many, sr)
			}
		}
		long := clientip.NewChain(append(many, a, b, clientip.NewRemoteAddr())...)
		rep := map[string]any{"header": key, "values": vals, "resolver": "long chain"}
		defer func() {
			var gotL string
			if !run.Guard("panic|long-chain|"+id, rep, func() { gotL = result(long.ClientIP(ctxFor(key, vals, "192.0.2.200:4444", nil))) }) {
				var gotS string
				run.Guard("panic|chain|"+id, rep, func() {
					gotS = result(clientip.NewChain(a, b, clientip.NewRemoteAddr()).ClientIP(ctxFor(key, vals, "192.0.2.200:4444", nil)))
				})
				if gotL != gotS {
					run.Violate("long-chain|"+id, fmt.Sprintf("a chain of 6 failing resolvers followed by the usual three returns %s, the usual three alone return %s\n%s=%q", gotL, gotS, key, vals), rep)
				}
			}
		}()
		chain := clientip.NewChain(a, b, clientip.NewRemoteAddr())
		want := "192.0.2.200"
		if len(rev) > 0 && rev[0].valid {
			want = rev[0].ip
		}
		for _, e := range rev {
			if e.valid && !e.private {
				want = e.ip
				break
			}
		}
		check("Chain(RightmostNonPrivate, RightmostTrustedCount(1), RemoteAddr)", chain, want, false, false)
	}
}

func describe(es []entry) string {
	var parts []string
	for _, e := range es {
		switch {
		case !e.valid:
			parts = append(parts, fmt.Sprintf("%q=junk", e.text))
		case e.private:
			parts = append(parts, fmt.Sprintf("%q=private %s", e.text, e.ip))
		default:
			parts = append(parts, fmt.Sprintf("%q=public %s", e.text, e.ip))
		}
	}
	return strings.Join(parts, " | ")
}

// single: single-header resolver uses the last header instance; remote address resolver; no fallback on error.
func single(run *kit.Run) {
	r := run.Rand(999)
	n := run.Pick(2000, 50000)
	for i := 0; i < n; i++ {
		name := []string{"X-Real-Ip", "x-real-ip", "CF-Connecting-IP", "True-Client-Ip"}[r.IntN(4)]
		res, err := clientip.NewSingleIPHeader(name)
		if err != nil {
			run.Violate("ctor", fmt.Sprintf("NewSingleIPHeader(%q): %v", name, err), nil)
			continue
		}
		var es []entry
		for k, m := 0, r.IntN(4); k < m; k++ {
			es = append(es, genEntry(r, false))
		}
		var vals []string
		for _, e := range es {
			vals = append(vals, strings.TrimSpace(e.text))
		}
		want := "error"
		if len(es) > 0 && es[len(es)-1].valid {
			want = es[len(es)-1].ip
		}
		key := http.CanonicalHeaderKey(name)
		rep := map[string]any{"header": key, "values": vals}
		var got string
		// decoys: other headers must never be used as a fallback
		extra := http.Header{"X-Forwarded-For": {"8.8.4.4"}, "Forwarded": {"for=8.8.4.4"}}
		if run.Guard(fmt.Sprintf("panic|single|%q", vals), rep, func() { got = result(res.ClientIP(ctxFor(key, vals, "8.8.4.4:1", extra))) }) {
			continue
		}
		run.Case(fmt.Sprintf("single|%s|%q", key, vals), len(vals) >= 2)
		run.Count("resolver_SingleIPHeader", 1)
		if got != want {
			run.Violate(fmt.Sprintf("wrong-entry|single|%q", vals), fmt.Sprintf("SingleIPHeader(%s) with instances %q returned %s, expected %s (last instance, never a fallback)", key, vals, got, want), rep)
		}
		// remote address
		e := genEntry(r, false)
		remote := strings.TrimSpace(e.text)
		wantR := "error"
		if e.valid {
			wantR = e.ip
		}
		var gotR string
		if !run.Guard(fmt.Sprintf("panic|remote|%q", remote), map[string]string{"remote": remote}, func() { gotR = result(clientip.NewRemoteAddr().ClientIP(ctxFor("X", nil, remote, extra))) }) {
			run.Count("resolver_RemoteAddr", 1)
			if gotR != wantR {
				run.Violate(fmt.Sprintf("wrong-entry|remote|%q", remote), fmt.Sprintf("RemoteAddr resolver with RemoteAddr %q returned %s, expected %s", remote, gotR, wantR), nil)
			}
		}
	}
}

// IANA special-purpose, multicast and reserved top-level blocks.
var special = mustNets(
	"0.0.0.0/8", "10.0.0.0/8", "100.64.0.0/10", "127.0.0.0/8", "169.254.0.0/16", "172.16.0.0/12", "192.0.0.0/24", "192.0.2.0/24", "192.31.196.0/24", "192.52.193.0/24",
	"192.88.99.0/24", "192.168.0.0/16", "192.175.48.0/24", "198.18.0.0/15", "198.51.100.0/24", "203.0.113.0/24", "224.0.0.0/4", "240.0.0.0/4",
	"::/128", "::1/128", "64:ff9b::/96", "64:ff9b:1::/48", "100::/64", "2001::/23", "2001:db8::/32", "2002::/16", "2620:4f:8000::/48", "3fff::/20", "5f00::/16", "fc00::/7", "fe80::/10", "ff00::/8",
)

func mustNets(s ...string) []*net.IPNet {
	var out []*net.IPNet
	for _, c := range s {
		_, n, err := net.ParseCIDR(c)
		if err != nil {
			panic(err)
		}
		out = append(out, n)
	}
	return out
}

func isSpecial(ip net.IP) bool {
	for _, n := range special {
		if n.Contains(ip) {
			return true
		}
	}
	return false
}

// audit: an address the default strategies skip as trusted/private must lie in a special-purpose block.
func audit(run *kit.Run) {
	// the oracle itself must be able to tell a public address from a special one, in both families (an IPv4-mapped
	// block in the table would silently cover every IPv4 address: net.IPNet treats ::ffff:0:0/96 as 0.0.0.0/0)
	for ip, want := range map[string]bool{"8.8.8.8": false, "172.15.255.255": false, "172.32.0.1": false, "192.18.0.1": false, "10.1.2.3": true, "198.18.0.1": true,
		"2606:4700::1": false, "2001:db8::1": true, "fe80::1": true, "::ffff:8.8.8.8": false} {
		if isSpecial(net.ParseIP(ip)) != want {
			run.Inconclusive("range audit oracle is wrong about %s", ip)
			return
		}
	}
	right, _ := clientip.NewRightmostNonPrivate(clientip.XForwardedForKey)
	left, _ := clientip.NewLeftmostNonPrivate(clientip.XForwardedForKey, 1)
	trusted := func(ip string) (bool, bool) {
		_, e1 := right.ClientIP(ctxFor("X-Forwarded-For", []string{ip}, "", nil))
		_, e2 := left.ClientIP(ctxFor("X-Forwarded-For", []string{ip}, "", nil))
		return e1 != nil, e2 != nil
	}
	probe := func(ip net.IP) {
		s := ip.String()
		if ip.IsUnspecified() {
			return
		}
		t1, t2 := trusted(s)
		run.Eval(1)
		run.Count("range_audit_addresses", 1)
		if (t1 || t2) && !isSpecial(ip) {
			run.Violate("default-range-public|"+s, fmt.Sprintf("the globally routable address %s is treated as trusted/private by the default ranges (RightmostNonPrivate skips it: %t, LeftmostNonPrivate excludes it: %t)", s, t1, t2), map[string]string{"address": s})
		}
	}
	r := run.Rand(4242)
	for a := 0; a < 256; a++ {
		for b := 0; b < 256; b++ {
			probe(net.IPv4(byte(a), byte(b), byte(r.IntN(256)), byte(1+r.IntN(254))))
		}
	}
	// boundaries of the special blocks, one step outside on each side
	for _, n := range special {
		first := n.IP
		last := make(net.IP, len(first))
		for i := range first {
			last[i] = first[i] | ^n.Mask[i]
		}
		probe(step(first, -1))
		probe(step(last, +1))
		probe(first)
		probe(last)
	}
	// IPv6: three random addresses under every 16-bit prefix
	for p := 0; p < 65536; p++ {
		for k := 0; k < run.Pick(1, 3); k++ {
			ip := make(net.IP, 16)
			ip[0], ip[1] = byte(p>>8), byte(p)
			for i := 2; i < 16; i++ {
				ip[i] = byte(r.IntN(256))
			}
			probe(ip)
		}
	}
	run.SetExtra("range_audit", "one random address in every IPv4 /16, first/last/neighbouring addresses of every special-purpose block, 1-3 random addresses under every IPv6 /16")
}

func step(ip net.IP, d int) net.IP {
	out := make(net.IP, len(ip))
	copy(out, ip)
	for i := len(out) - 1; i >= 0; i-- {
		if d > 0 {
			out[i]++
			if out[i] != 0 {
				break
			}
		} else {
			out[i]--
			if out[i] != 255 {
				break
			}
		}
	}
	return out
}
