// C09: hostname routes match the whole host, path-only routes are the fallback.
// Oracles: (1) an independent label-by-label host matcher applied to whatever hostname route fox selects,
// (2) ref.Lookup for the hostname-first / path-fallback decision, (3) a metamorphic monitor: a method whose routes
// have no hostname answers identically for arbitrary Host values.
package main

import (
	"fmt"
	"math/rand/v2"
	"os"
	"path/filepath"
	"sort"
	"strings"

	"foxverif/gen"
	"foxverif/kit"
	"foxverif/ref"
	"foxverif/route"
)

const rule = "cases = (hostname-heavy trie-grown route set, request whose Host is derived from a registered hostname pattern and mutated: " +
	"bytes/labels appended or prepended, truncated, port, trailing dot(s), junk, IP literals, empty; half of the cases after delete churn of related hostname routes; a third looked up through an open write transaction that added and deleted routes; Reverse and Iter.Reverse must agree with Lookup; the request list is walked in three orders); distinct by (route set, request); " +
	"non-trivial when the route set has a hostname route for the request method and the Host is non-empty"

func main() {
	run := kit.Start("C09", rule)
	defer run.Finish()
	if run.ReplayIn != "" {
		var c route.Case
		if err := kit.LoadReplay(run.ReplayIn, &c); err != nil {
			run.Inconclusive("cannot load replay: %v", err)
			return
		}
		check(run, c)
		return
	}
	if dir := os.Getenv("VERIF_CORPUS"); dir != "" {
		files, _ := filepath.Glob(filepath.Join(dir, "C09", "*.json"))
		sort.Strings(files)
		for _, f := range files {
			var c route.Case
			if err := kit.LoadReplay(f, &c); err != nil {
				run.Inconclusive("corpus %s: %v", f, err)
				continue
			}
			check(run, c)
			run.Count("corpus_cases", 1)
		}
	}
	sets := run.Pick(3000, 2000000)
	const per = 50
	run.Parallel(sets/per, func(batch int) {
		r := run.Rand(uint64(batch))
		for i := 0; i < per; i++ {
			pf := gen.HostProfile
			if r.IntN(4) == 0 {
				pf = gen.DefaultProfile
			}
			methods := []string{"GET"}
			if r.IntN(3) == 0 {
				methods = []string{"GET", "POST"}
			}
			c := route.GenCase(r, route.GenOpts{Profile: pf, Probes: 8, Methods: methods, SlashModes: r.IntN(3) == 0})
			if len(c.Routes) == 0 {
				continue
			}
			c.Reqs = append(c.Reqs, hostMutations(r, c)...)
			if r.IntN(2) == 0 {
				c.Churn = r.Uint64() | 1
			}
			if r.IntN(2) == 0 {
				c.Global = append(c.Global, "options")
			}
			check(run, c)
		}
	})
}

// hostMutations derives, for every hostname route, requests whose Host surrounds the pattern's language.
func hostMutations(r *rand.Rand, c route.Case) []route.Req {
	var out []route.Req
	for _, rs := range c.Routes {
		if strings.HasPrefix(rs.Pattern, "/") {
			// path-only: arbitrary hosts
			if r.IntN(3) == 0 {
				_, path, _ := gen.Instantiate(r, rs.Pattern)
				out = append(out, route.Req{Method: rs.Method, Host: gen.JunkHosts[r.IntN(len(gen.JunkHosts))], Path: path})
			}
			continue
		}
		host, path, _ := gen.Instantiate(r, rs.Pattern)
		muts := []string{
			host, host + "x", host + ".", host + "..", host + ".org", host + ".evil.org", "x" + host, "x." + host, host + ":80", host + ".:8443",
			host[:len(host)-1], strings.ToUpper(host[:1]) + host[1:], host + "-", "." + host, host + ":", host + ".a",
			// more than one colon outside brackets: whatever is taken for the port, what is left is not the pattern
			host + ":80:443", host + "::80", host + ":evil.org:80", host + ".:1:2", host + ":x:1",
		}
		if k := strings.IndexByte(host, '.'); k >= 0 {
			muts = append(muts, host[k+1:], host[:k], host[:k]+".."+host[k+1:], host[:k]+host[k+1:])
		}
		if k := strings.LastIndexByte(host, '.'); k >= 0 {
			muts = append(muts, host[:k], host[:k+1])
		}
		// each label in turn replaced by a long one (a request may carry any Host, also labels beyond what DNS allows),
		// alone and followed by further labels
		labels := strings.Split(host, ".")
		for i := range labels {
			if r.IntN(2) == 0 {
				continue
			}
			cp := append([]string(nil), labels...)
			cp[i] = strings.Repeat("l", []int{63, 64, 65, 100, 300}[r.IntN(5)])
			long := strings.Join(cp, ".")
			muts = append(muts, long, long+".attacker.net")
		}
		for _, h := range muts {
			if r.IntN(3) == 0 {
				continue
			}
			out = append(out, route.Req{Method: rs.Method, Host: h, Path: path})
		}
	}
	return out
}

// hostMatches is the independent oracle: the effective host equals the hostname pattern label for label, each
// {param} standing for one non-empty dot-free label part.
func hostMatches(patternHost, host string) bool {
	pl := strings.Split(patternHost, ".")
	hl := strings.Split(host, ".")
	if len(pl) != len(hl) {
		return false
	}
	for i := range pl {
		p, h := pl[i], hl[i]
		if k := strings.IndexByte(p, '{'); k >= 0 {
			if !strings.HasPrefix(h, p[:k]) || len(h) <= k {
				return false
			}
		} else if p != h {
			return false
		}
	}
	return true
}

func check(run *kit.Run, c route.Case) {
	var b *route.Built
	// a third of the cases register the last routes through a write transaction that stays open while everything is
	// looked up through it (hostname first, path-only fallback - both from the transaction's own state)
	full := c
	split := len(c.Routes)
	if c.Churn == 0 && len(c.Routes) > 1 && (len(c.Routes)+len(c.Reqs))%3 == 0 {
		split = len(c.Routes) / 2
		c.Routes = full.Routes[:split]
	}
	run.Guard("build|"+full.RoutesString(), c, func() {
		var err error
		if b, err = route.Build(c); err != nil {
			run.Inconclusive("fox.New: %v", err)
			b = nil
		}
	})
	if b == nil {
		return
	}
	if b.Churned > 0 {
		run.Count("cases_with_delete_churn", 1)
		run.Count("churn_routes_added_and_deleted", int64(b.Churned))
	}
	if b.ChurnErr != "" {
		run.Violate("churn|"+c.RoutesString(), b.ChurnErr, c)
	}
	var lk route.Lookuper = b.F
	via := "router"
	if split < len(full.Routes) {
		txn := b.F.Txn(true)
		defer txn.Abort()
		for _, rs := range full.Routes[split:] {
			if _, err := txn.Handle(rs.Method, rs.Pattern, b.Handler(), route.RouteOpts(rs)...); err == nil {
				b.Note(rs)
			}
		}
		// and one deletion of a route registered before, so that the transaction differs from the router both ways
		if rs := full.Routes[0]; strings.HasPrefix(rs.Pattern, "/") {
			if _, err := txn.Delete(rs.Method, rs.Pattern); err == nil {
				b.Forget(rs)
			}
		}
		lk, via = txn, "open write transaction"
		run.Count("cases_looked_up_through_an_open_write_txn", 1)
	}
	c = full
	optionsOn := false
	for _, gopt := range c.Global {
		optionsOn = optionsOn || gopt == "options"
	}
	hasHost := map[string]bool{}
	for _, rs := range c.Routes {
		if !strings.HasPrefix(rs.Pattern, "/") {
			hasHost[rs.Method] = true
		}
	}
	// the request list is walked three times, forwards, backwards and interleaved: each lookup runs on the context the
	// previous one released, whatever that one was
	n := len(c.Reqs)
	order := make([]int, 0, 3*n)
	for i := 0; i < n; i++ {
		order = append(order, i)
	}
	for i := n - 1; i >= 0; i-- {
		order = append(order, i)
	}
	for i := 0; i < n; i++ {
		order = append(order, (i*7+3)%n)
	}
	for oi, i := range order {
		q := c.Reqs[i]
		if gen.HasEmptySegment(q.MatchPath()) {
			continue
		}
		id := c.RoutesString() + "|" + q.String()
		_ = oi
		run.Guard("probe|"+id, c, func() {
			got := route.LookupObs(lk, q)
			if msg := route.EntryAgreement(lk, q, got); msg != "" {
				run.Violate("entry|"+id, fmt.Sprintf("[via %s] %s\nroutes: %s\nrequest: %s", via, msg, c.RoutesString(), q), c)
			}
			want := b.Ref(q)
			run.Case(id, hasHost[q.Method] && q.Host != "")
			// (1) whatever hostname route is selected must match the whole effective host
			if got.Pattern != "" && !strings.HasPrefix(got.Pattern, "/") {
				eff, ok := ref.StripHost(q.Host)
				ph := got.Pattern[:strings.IndexByte(got.Pattern, '/')]
				if ok {
					run.Count("hostname_route_selected", 1)
					if !hostMatches(ph, eff) {
						run.Violate("host-not-whole|"+id, fmt.Sprintf("hostname route selected for a Host that is not label-for-label its pattern\nroutes: %s\nrequest: %s\neffective host: %q\nfox: %s",
							c.RoutesString(), q, eff, got), c)
					}
				} else if !strings.ContainsAny(q.Host, "[]") && strings.Count(q.Host, ":") >= 2 {
					// several colons outside brackets: which part is "the port" is not specified, but whichever reading is
					// taken - nothing removed, or the part after the last colon removed - the rest must be the pattern
					// label for label; a pattern that matches neither was matched against a mere prefix of the Host
					whole := strings.TrimSuffix(q.Host, ".")
					cut := strings.TrimSuffix(q.Host[:strings.LastIndexByte(q.Host, ':')], ".")
					run.Count("hostname_route_selected_for_a_multi_colon_host", 1)
					if !hostMatches(ph, whole) && !hostMatches(ph, cut) {
						run.Violate("host-not-whole|"+id, fmt.Sprintf("hostname route selected for a Host with several colons of which the pattern is only a prefix (neither the Host as it stands nor the Host without its last colon part equals the pattern label for label)\nroutes: %s\nrequest: %s\nfox: %s",
							c.RoutesString(), q, got), c)
					}
				} else {
					run.Count("hostname_route_selected_unspecified_host", 1)
				}
			}
			// (2) hostname first, path-only as the fallback (full reference, trailing-slash rule included)
			if !want.Unspec {
				if class := route.Classify(want, got); class != "" {
					run.Violate(class+"|"+id, fmt.Sprintf("[%s]\nroutes: %s\nrequest: %s\nreference: %s %v tsr=%t viaHost=%t\nfox:       %s",
						class, c.RoutesString(), q, want.Pattern, want.Params, want.Tsr, want.ViaHost, got), c)
				}
				switch {
				case want.Pattern == "":
					run.Count("ref_none", 1)
				case want.ViaHost:
					run.Count("ref_via_hostname", 1)
				case hasHost[q.Method]:
					run.Count("ref_path_fallback_with_hostname_routes_present", 1)
				default:
					run.Count("ref_path_only_method", 1)
				}
			} else {
				run.Count("ref_unspecified(identity skipped)", 1)
			}
			if msg := route.SelfCheck(q, got); msg != "" {
				run.Violate("self|"+id, fmt.Sprintf("answer is not a match of its own pattern: %s\nroutes: %s\nrequest: %s\nfox: %s", msg, c.RoutesString(), q, got), c)
			}
			if via != "router" {
				return // ServeHTTP serves the committed state, not the transaction's
			}
			// the automatic OPTIONS reply for the same host and path names the method whose route serves it (the probing
			// of the methods sees the hostname routes exactly as the request's own lookup does)
			if got.Pattern != "" && !got.Tsr && optionsOn {
				oq := q
				oq.Method = "OPTIONS"
				so := b.Serve(oq)
				if so.Seen.Kind == "options" || so.Seen.Kind == "noroute" {
					run.Count("auto_options_replies_checked", 1)
					if !strings.Contains(", "+so.Allow+",", ", "+q.Method+",") {
						run.Violate("options-host|"+id, fmt.Sprintf("%s is served by %s for this host and path, but the automatic OPTIONS reply (handler %q) has Allow=%q\nroutes: %s\nrequest: %s", q.Method, got.Pattern, so.Seen.Kind, so.Allow, c.RoutesString(), q), c)
					}
				}
			}
			s := b.Serve(q)
			if got.Pattern != "" && !got.Tsr && (s.Seen.Kind != "route" || s.Seen.Pattern != got.Pattern) {
				run.Violate("entry-serve|"+id, fmt.Sprintf("ServeHTTP disagrees with Lookup\nroutes: %s\nrequest: %s\nLookup: %s\nServeHTTP ran %q %q", c.RoutesString(), q, got, s.Seen.Kind, s.Seen.Pattern), c)
			}
			// (3) a method without hostname routes ignores the Host altogether
			if !hasHost[q.Method] {
				for _, h := range gen.JunkHosts {
					q2 := q
					q2.Host = h
					g2 := route.LookupObs(b.F, q2)
					run.Count("host_ignored_comparisons", 1)
					if g2.Pattern != got.Pattern || g2.Tsr != got.Tsr || !route.SameParams(g2.Params, got.Params) {
						run.Violate("host-matters|"+id, fmt.Sprintf("method %s has no hostname route but the answer depends on Host\nroutes: %s\nrequest: %s -> %s\nwith Host %q -> %s",
							q.Method, c.RoutesString(), q, got, h, g2), c)
						break
					}
				}
			}
			if i == 0 && run.WantSample() {
				run.Sample(map[string]any{"routes": c.RoutesString(), "request": q.String(), "reference": fmt.Sprintf("%s %v tsr=%t viaHost=%t", want.Pattern, want.Params, want.Tsr, want.ViaHost), "fox": got.String()})
			}
		})
	}
}
