// C01: routing selects the documented route with the correct parameters.
// Oracle: ref.Lookup (flat, tree-free reference matcher) for route identity and parameters of direct matches,
// plus two reference-free monitors: substitution round trip and agreement of every lookup entry point
// (ServeHTTP, Lookup, Reverse, Iter.Reverse on the router, a read transaction, a write transaction holding
// uncommitted routes, and its Snapshot).
package main

import (
	"fmt"
	"os"
	"path/filepath"
	"sort"
	"strings"

	"foxverif/gen"
	"foxverif/kit"
	"foxverif/ref"
	"foxverif/route"
)

const rule = "cases = (trie-grown route set, request derived from a registered pattern by hostile instantiation and perturbation); " +
	"a case is distinct by (route set, request) and non-trivial when the reference matcher needed at least one wildcard capture or one failed branch to decide it; " +
	"a third of the cases go through delete churn first (temporary routes grown from the registered ones - path extensions, hostname super/sub-domains, other methods - registered and deleted again in random order); " +
	"a quarter of the cases register their last routes through a write transaction: lookups through it and its snapshot follow the full set, while the router keeps routing like the set before it; " +
	"plus the exhaustive small space (all sets of <=3 or <=4 patterns of a fixed pool x all paths of <=3 segments over 4 values)"

type caseFile struct {
	route.Case
	Split int `json:"split"` // routes [split:] are added inside a write transaction and probed before commit
}

func main() {
	run := kit.Start("C01", rule)
	defer run.Finish()
	if run.ReplayIn != "" {
		var c caseFile
		if err := kit.LoadReplay(run.ReplayIn, &c); err != nil {
			run.Inconclusive("cannot load replay: %v", err)
			return
		}
		check(run, c)
		return
	}
	// regression corpus first
	if dir := os.Getenv("VERIF_CORPUS"); dir != "" {
		files, _ := filepath.Glob(filepath.Join(dir, "C01", "*.json"))
		sort.Strings(files)
		for _, f := range files {
			var c caseFile
			if err := kit.LoadReplay(f, &c); err != nil {
				run.Inconclusive("corpus %s: %v", f, err)
				continue
			}
			check(run, c)
			run.Count("corpus_cases", 1)
		}
	}
	sets := run.Pick(4000, 1200000)
	probes := run.Pick(24, 32)
	if run.Mode() == "race" {
		sets = run.Pick(600, 30000)
	}
	const per = 50
	run.Parallel(sets/per, func(batch int) {
		r := run.Rand(uint64(batch))
		for i := 0; i < per; i++ {
			pf := gen.DefaultProfile
			switch r.IntN(10) {
			case 0, 1, 2:
				pf = gen.PathProfile
			case 3:
				pf = gen.HostProfile
			}
			if r.IntN(40) == 0 {
				pf.FanOut = true
			}
			c := caseFile{Case: route.GenCase(r, route.GenOpts{Profile: pf, Probes: probes})}
			if len(c.Routes) == 0 {
				continue
			}
			// a quarter of the probes also in a wire form with percent-escapes (routed on URL.RawPath)
			for _, q := range c.Reqs {
				if r.IntN(4) == 0 {
					if t, ok := route.Escaped(r, q); ok {
						c.Reqs = append(c.Reqs, t)
					}
				}
			}
			if r.IntN(4) == 0 {
				c.Split = r.IntN(len(c.Routes) + 1)
			} else {
				c.Split = len(c.Routes)
				if r.IntN(3) == 0 {
					c.Churn = r.Uint64() | 1
				}
			}
			check(run, c)
		}
	})
	if run.Mode() != "race" {
		exhaustive(run)
	}
}

var pool = []string{"/a", "/{p0}", "/*{c0}", "/a/b", "/a/{p1}", "/{p0}/b", "/{p0}/{p1}", "/a/*{c1}", "/*{c0}/b", "/a{p0}", "/a/", "/{p0}/",
	"/ab", "/a/b/x", "/{p0}/{p1}/x", "/a/*{c1}/x"}

func exhaustive(run *kit.Run) {
	vals := []string{"a", "b", "ab", "x"}
	var paths []string
	var rec func(prefix string, d int)
	rec = func(prefix string, d int) {
		if d > 0 {
			paths = append(paths, prefix, prefix+"/")
		}
		if d == 3 {
			return
		}
		for _, v := range vals {
			rec(prefix+"/"+v, d+1)
		}
	}
	rec("", 0)
	paths = append(paths, "/")
	var reqs []route.Req
	for _, p := range paths {
		reqs = append(reqs, route.Req{Method: "GET", Path: p})
	}
	maxK := run.Pick(3, 4)
	var sets [][]int
	var comb func(start int, cur []int)
	comb = func(start int, cur []int) {
		if len(cur) > 0 {
			sets = append(sets, append([]int(nil), cur...))
		}
		if len(cur) == maxK {
			return
		}
		for i := start; i < len(pool); i++ {
			comb(i+1, append(cur, i))
		}
	}
	comb(0, nil)
	run.Parallel(len(sets), func(i int) {
		var c caseFile
		for _, k := range sets[i] {
			c.Routes = append(c.Routes, route.RouteSpec{Method: "GET", Pattern: pool[k]})
		}
		c.Reqs = reqs
		c.Split = len(c.Routes)
		check(run, c)
		run.Count("exhaustive_sets", 1)
	})
	run.SetExtra("exhaustive_subspace", fmt.Sprintf("all %d sets of <=%d patterns from a %d-pattern pool x all %d paths of <=3 segments over %v (with and without trailing slash): enumerated completely",
		len(sets), maxK, len(pool), len(paths), vals))
	// second space: hostname patterns x hosts
	var hreqs []route.Req
	for _, h := range []string{"", "a.com", "b.com", "c.com", "a.org", "a.com.org", "x.a.com", "a.com:80", "a.com.", "com", "a"} {
		for _, p := range []string{"/", "/x", "/y", "/x/", "/x/y"} {
			hreqs = append(hreqs, route.Req{Method: "GET", Host: h, Path: p})
		}
	}
	var hsets [][]int
	var hcomb func(start int, cur []int)
	hcomb = func(start int, cur []int) {
		if len(cur) > 0 {
			hsets = append(hsets, append([]int(nil), cur...))
		}
		if len(cur) == 3 {
			return
		}
		for i := start; i < len(hostPool); i++ {
			hcomb(i+1, append(cur, i))
		}
	}
	hcomb(0, nil)
	run.Parallel(len(hsets), func(i int) {
		var c caseFile
		for _, k := range hsets[i] {
			c.Routes = append(c.Routes, route.RouteSpec{Method: "GET", Pattern: hostPool[k]})
		}
		c.Reqs = hreqs
		c.Split = len(c.Routes)
		check(run, c)
		run.Count("exhaustive_hostname_sets", 1)
	})
	run.SetExtra("exhaustive_hostname_subspace", fmt.Sprintf("all %d sets of <=3 patterns from a %d-pattern hostname pool x %d (host, path) requests: enumerated completely", len(hsets), len(hostPool), len(hreqs)))
}

var hostPool = []string{"a.com/", "a.com/x", "{h}.com/x", "a.{t}/x", "/x", "/{p}", "b.com/{p}", "{h}.com/", "x.a.com/x", "{s}.a.com/x", "a.com/x/", "/*{w}", "{h}.{t}/x", "a.com/*{w}"}

func check(run *kit.Run, c caseFile) {
	if c.Split > len(c.Routes) || c.Split < 0 {
		c.Split = len(c.Routes)
	}
	pre := c.Case
	pre.Routes = c.Routes[:c.Split]
	var b *route.Built
	run.Guard("build|"+c.RoutesString(), c, func() {
		var err error
		b, err = route.Build(pre)
		if err != nil {
			run.Inconclusive("fox.New failed: %v", err)
			b = nil
		}
	})
	if b == nil {
		return
	}
	if b.Churned > 0 {
		run.Count("cases_with_delete_churn", 1)
		run.Count("churn_routes_added_and_deleted", int64(b.Churned))
	}
	if b.ChurnErr != "" {
		run.Violate("churn|"+c.RoutesString(), b.ChurnErr, c)
	}
	// routes [split:] go in through a write transaction that is probed before it commits
	if c.Split < len(c.Routes) {
		run.Guard("txn|"+c.RoutesString(), c, func() {
			txn := b.F.Txn(true)
			defer txn.Abort()
			// what the router must keep answering until the transaction commits
			pre := map[string][]*ref.Pattern{}
			for m, ps := range b.ByMethod {
				pre[m] = append([]*ref.Pattern(nil), ps...)
			}
			preMethods := append([]string(nil), b.Methods...)
			// every other case starts the transaction by updating a route that is already registered (same handler and
			// options: the registered set does not change)
			if c.Split > 0 && len(c.Routes)%2 == 0 {
				rs := c.Routes[(len(c.Reqs)+c.Split)%c.Split]
				_, _ = txn.Update(rs.Method, rs.Pattern, b.Handler(), route.RouteOpts(rs)...)
			}
			for _, rs := range c.Routes[c.Split:] {
				if _, err := txn.Handle(rs.Method, rs.Pattern, b.Handler(), route.RouteOpts(rs)...); err == nil {
					b.Note(rs)
				}
			}
			// the router (not the transaction) still routes like the set before the transaction, whatever the
			// transaction has written so far
			full, fullMethods := b.ByMethod, b.Methods
			b.ByMethod, b.Methods = pre, preMethods
			for _, q := range c.Reqs {
				if gen.HasEmptySegment(q.MatchPath()) {
					continue
				}
				probeVia(run, c, b, q, "router-while-a-write-txn-is-open", b.F)
				run.Count("probes_of_router_during_open_write_txn", 1)
			}
			b.ByMethod, b.Methods = full, fullMethods
			snap := txn.Snapshot()
			for _, q := range c.Reqs {
				if gen.HasEmptySegment(q.MatchPath()) {
					continue
				}
				probeVia(run, c, b, q, "writetxn", txn)
				probeVia(run, c, b, q, "snapshot", snap)
				run.Count("probes_via_open_write_txn", 1)
			}
			txn.Commit()
		})
	}
	rtx := b.F.Txn(false)
	defer rtx.Abort()
	for i, q := range c.Reqs {
		if gen.HasEmptySegment(q.MatchPath()) {
			run.Count("skipped_empty_segment", 1)
			continue
		}
		run.Guard("probe|"+c.RoutesString()+"|"+q.String(), c, func() {
			want := probeVia(run, c, b, q, "router", b.F)
			probeVia(run, c, b, q, "readtxn", rtx)
			serveAgree(run, c, b, q, want)
			nontrivial := want.Captures > 0 || want.Backtrack > 0
			run.Case(c.RoutesString()+"|"+q.String(), nontrivial)
			categorize(run, want)
			if i == 0 && run.WantSample() {
				run.Sample(map[string]any{"routes": c.RoutesString(), "request": q.String(), "reference": fmt.Sprintf("%s %v tsr=%t", want.Pattern, want.Params, want.Tsr),
					"reference_backtracks": want.Backtrack})
			}
		})
	}
}

func categorize(run *kit.Run, want ref.Outcome) {
	switch {
	case want.Unspec:
		run.Count("ref_unspecified(identity skipped)", 1)
	case want.Pattern == "":
		run.Count("ref_no_match", 1)
	case want.Tsr:
		run.Count("ref_slash_adjusted", 1)
	case want.ViaHost:
		run.Count("ref_direct_hostname", 1)
	default:
		run.Count("ref_direct_path", 1)
	}
	if want.Pattern != "" && !want.Tsr {
		if strings.Contains(want.Pattern, "*{") {
			run.Count("ref_direct_with_catchall", 1)
		} else if strings.Contains(want.Pattern, "{") {
			run.Count("ref_direct_with_param", 1)
		} else {
			run.Count("ref_direct_static", 1)
		}
	}
	switch {
	case want.Backtrack == 0:
		run.Count("backtrack_0", 1)
	case want.Backtrack <= 2:
		run.Count("backtrack_1-2", 1)
	case want.Backtrack <= 5:
		run.Count("backtrack_3-5", 1)
	default:
		run.Count("backtrack_6+", 1)
	}
}

// probeVia checks Lookup, Reverse and Iter.Reverse of one lookuper against the reference and each other.
func probeVia(run *kit.Run, c caseFile, b *route.Built, q route.Req, via string, l route.Lookuper) ref.Outcome {
	want := b.Ref(q)
	got := route.LookupObs(l, q)
	id := c.RoutesString() + "|" + q.String()
	// Direct selection is decided against the direct-only reference; the one case where a direct path-only
	// match must NOT be taken (a slash-adjusted hostname route exists) is C08's rule and is left to C08.
	direct := ref.LookupDirect(b.ByMethod[q.Method], q.Host, q.MatchPath())
	wantDirect := direct.Pattern != ""
	overridden := want.Tsr && want.ViaHost && wantDirect
	gotDirect := got.Pattern != "" && !got.Tsr
	if !want.Unspec && !direct.Unspec {
		class := ""
		switch {
		case wantDirect && gotDirect:
			if direct.Pattern != got.Pattern {
				class = "wrong-route"
			} else if !route.SameParams(direct.Params, got.Params) {
				class = "params-differ"
			}
		case wantDirect && !gotDirect && !overridden:
			class = "missed-match"
		case !wantDirect && gotDirect:
			class = "spurious-match"
		}
		if class != "" {
			run.Violate(class+"|"+id, fmt.Sprintf("[%s via %s] routes: %s\nrequest: %s\nreference: %s %v (direct=%t)\nfox:       %s",
				class, via, c.RoutesString(), q, direct.Pattern, direct.Params, wantDirect, got), c)
		}
	}
	if msg := route.SelfCheck(q, got); msg != "" && gotDirect {
		run.Violate("self|"+id, fmt.Sprintf("[self-consistency via %s] routes: %s\nrequest: %s\nfox: %s\n%s", via, c.RoutesString(), q, got, msg), c)
	}
	// Reverse and Iter.Reverse must agree with Lookup
	rev := route.ReverseObs(l, q)
	if rev.Pattern != got.Pattern || rev.Tsr != got.Tsr || rev.Route != got.Route {
		run.Violate("entry-reverse|"+id, fmt.Sprintf("[%s] Reverse disagrees with Lookup: routes: %s\nrequest: %s\nLookup:  %s\nReverse: %s", via, c.RoutesString(), q, got, rev), c)
	}
	its := route.IterReverseObs(l, q)
	wantIt := gotDirect || (got.Pattern != "" && got.Tsr && (got.Route.IgnoreTrailingSlashEnabled() || got.Route.RedirectTrailingSlashEnabled()))
	if wantIt != (len(its) == 1) || (len(its) == 1 && its[0] != got.Route) {
		run.Violate("entry-iter|"+id, fmt.Sprintf("[%s] Iter.Reverse disagrees with Lookup: routes: %s\nrequest: %s\nLookup: %s\nIter.Reverse yielded %d route(s)", via, c.RoutesString(), q, got, len(its)), c)
	}
	return want
}

// serveAgree checks that ServeHTTP runs the handler of the route Lookup selects, with the same parameters.
func serveAgree(run *kit.Run, c caseFile, b *route.Built, q route.Req, want ref.Outcome) {
	got := route.LookupObs(b.F, q)
	s := b.Serve(q)
	id := c.RoutesString() + "|" + q.String()
	if got.Pattern != "" && !got.Tsr {
		if s.Seen.Kind != "route" || s.Seen.Pattern != got.Pattern || !route.SameParams(s.Seen.Params, got.Params) || s.Seen.Calls != 1 {
			run.Violate("entry-serve|"+id, fmt.Sprintf("ServeHTTP disagrees with Lookup: routes: %s\nrequest: %s\nLookup: %s\nServeHTTP ran %q pattern=%q params=%v calls=%d",
				c.RoutesString(), q, got, s.Seen.Kind, s.Seen.Pattern, s.Seen.Params, s.Seen.Calls), c)
		}
		return
	}
	// no direct match: with no trailing-slash option in force a route handler must not run
	if len(c.Global) == 0 && s.Seen.Kind == "route" {
		mode := ""
		if got.Pattern != "" {
			mode = b.SlashMode(q.Method, got.Pattern)
		}
		if mode == "" {
			run.Violate("entry-serve|"+id, fmt.Sprintf("ServeHTTP ran a route handler although Lookup reports no direct match: routes: %s\nrequest: %s\nLookup: %s\nServeHTTP ran pattern=%q params=%v",
				c.RoutesString(), q, got, s.Seen.Pattern, s.Seen.Params), c)
		}
	}
}
