// C05: concurrent use is race-free and linearizable.
// Oracles: the Go race detector (the driver parses its log), and offline checkers over client-boundary histories:
// porcupine per route key against a sequential (present, version) model; epoch monotonicity per reader (a reader that
// observed commit e never later observes a state older than e, on any key); no lost / phantom write at quiescence.
package main

import (
	"bytes"
	"errors"
	"fmt"
	"hash/fnv"
	"net/http"
	"net/url"
	"runtime"
	"sort"
	"strconv"
	"strings"
	"sync"
	"sync/atomic"
	"time"

	"foxverif/conc"
	"foxverif/kit"
	"foxverif/ref"

	"github.com/anishathalye/porcupine"
	"github.com/tigerwill90/fox"
)

const rule = "cases = short concurrent histories (N writers x M readers on 9 route keys that share radix nodes but have pairwise disjoint match languages; single operations, " +
	"multi-key transactions, aborted transactions; reads through ServeHTTP, Lookup, Reverse, Has, Route, Iter and View; GOMAXPROCS and injected delays at the commit hooks varied); " +
	"one evaluation = one recorded history checked offline; distinct by the hash of its call-ordered (client, op, key, result) sequence; " +
	"non-trivial when at least one read overlaps in time a committed write to the same key; plus three request-versus-commit monitors: method flip, OPTIONS * asked by the writer after each of its writes returned, and a truncate storm (custom verbs emptied, removed and re-created while untouched verbs are served and all-verb scans run), and a parameter storm (4 x GOMAXPROCS goroutines with private values through routes using nested pooled sub-contexts while a writer commits)"

type in struct {
	Key string
	Op  string // handle update delete | has route serve lookup reverse iter view
	Ver int64
}
type out struct {
	OK  bool  // writes: success; has: present
	Ver int64 // reads that identify a version: -1 = absent
}
type st struct {
	Present bool
	Ver     int64
}

var model = porcupine.Model{
	Partition: func(h []porcupine.Operation) [][]porcupine.Operation {
		m := map[string][]porcupine.Operation{}
		var ks []string
		for _, o := range h {
			k := o.Input.(in).Key
			if _, ok := m[k]; !ok {
				ks = append(ks, k)
			}
			m[k] = append(m[k], o)
		}
		sort.Strings(ks)
		var r [][]porcupine.Operation
		for _, k := range ks {
			r = append(r, m[k])
		}
		return r
	},
	Init: func() any { return st{} },
	Step: func(s, i, o any) (bool, any) {
		S, I, O := s.(st), i.(in), o.(out)
		switch I.Op {
		case "handle":
			if S.Present {
				return !O.OK, S
			}
			if O.OK {
				return true, st{true, I.Ver}
			}
			return false, S
		case "update":
			if !S.Present {
				return !O.OK, S
			}
			if O.OK {
				return true, st{true, I.Ver}
			}
			return false, S
		case "delete":
			if !S.Present {
				return !O.OK, S
			}
			if O.OK {
				// Delete returns the removed route: it must be the version that was current
				return O.Ver == S.Ver, st{}
			}
			return false, S
		case "has":
			return O.OK == S.Present, S
		default: // version-identifying reads
			if !S.Present {
				return O.Ver == -1, S
			}
			return O.Ver == S.Ver, S
		}
	},
	Equal:             func(a, b any) bool { return a.(st) == b.(st) },
	DescribeOperation: func(i, o any) string { return fmt.Sprintf("%+v -> %+v", i, o) },
}

type verKey struct{}

var (
	keys   = []string{"/a", "/ab", "/abc", "/ab/c", "/a/x/{p}", "/a/y/*{w}", "h.com/a", "/a/z/", "/a/w/*{c}/m/{p}/{q}"}
	probes = []struct{ host, path string }{{"", "/a"}, {"", "/ab"}, {"", "/abc"}, {"", "/ab/c"}, {"", "/a/x/1"}, {"", "/a/y/1/2"}, {"h.com", "/a"}, {"", "/a/z/"}, {"", "/a/w/1/2/m/7/8"}}
	// parameters a handler / Lookup must see for probe i
	wantParams = []string{"", "", "", "", "p=1", "w=1/2", "", "", "c=1/2,p=7,q=8"}
	// first parameter mismatch seen by a concurrent reader (checked after every history)
	paramBad atomic.Pointer[string]
)

func paramsOf(c fox.Context) string {
	var sb strings.Builder
	for p := range c.Params() {
		if sb.Len() > 0 {
			sb.WriteByte(',')
		}
		sb.WriteString(p.Key + "=" + p.Value)
	}
	return sb.String()
}

// verW is an allocation-light writer on which the handler leaves the version it carries.
type verW struct {
	h      http.Header
	ver    int64
	params string
}

func (w *verW) Header() http.Header         { return w.h }
func (w *verW) Write(b []byte) (int, error) { return len(b), nil }
func (w *verW) WriteHeader(c int) {
	if c == 404 {
		w.ver = -1
	}
}

func handlerFor(v int64) fox.HandlerFunc {
	return func(c fox.Context) {
		w := c.Writer().(interface{ Unwrap() http.ResponseWriter }).Unwrap().(*verW)
		w.ver = v
		w.params = paramsOf(c)
	}
}

func goid() int64 {
	var buf [64]byte
	n := runtime.Stack(buf[:], false)
	b := bytes.TrimPrefix(buf[:n], []byte("goroutine "))
	i := bytes.IndexByte(b, ' ')
	id, _ := strconv.ParseInt(string(b[:i]), 10, 64)
	return id
}

func verOf(r *fox.Route) int64 {
	if r == nil {
		return -1
	}
	v, _ := r.Annotation(verKey{}).(int64)
	return v
}

// selfCheck verifies with the reference matcher that the key set is usable: probe i is matched by key i only.
func selfCheck(run *kit.Run) bool {
	var pats []*ref.Pattern
	for _, k := range keys {
		pats = append(pats, ref.Tokenize(k))
	}
	for i, p := range probes {
		for j := range keys {
			o := ref.Lookup([]*ref.Pattern{pats[j]}, p.host, p.path)
			hit := o.Pattern != "" && !o.Tsr
			// h.com/a is also answered by path-only /a when the hostname route is absent: with Host h.com the probe of
			// key 6 would fall back to key 0, so key 0 is only ever probed with an empty Host and key 6 is excluded from serve probes below
			if hit != (i == j) && !(i == 6 && j == 0) {
				run.Inconclusive("key set unusable: probe %d matched by key %d", i, j)
				return false
			}
		}
	}
	return true
}

type event struct {
	client int
	in     in
	out    out
	call   int64
	ret    int64
	epoch  int64 // writes: commit epoch (0 = not committed)
}

func main() {
	run := kit.Start("C05", rule)
	defer run.Finish()
	if !selfCheck(run) {
		return
	}
	histories := run.Pick(40, 3000)
	var totalOps, contended, unknown int64
	sigs := map[uint64]bool{}
	for h := 0; h < histories; h++ {
		evs, ok := oneHistory(run, h)
		if !ok {
			continue
		}
		totalOps += int64(len(evs))
		if m := paramBad.Swap(nil); m != nil {
			run.Violate(fmt.Sprintf("params|history=%d", h), "a concurrent reader observed wrong route parameters: "+*m, map[string]any{"history": h, "seed": run.Seed()})
		}
		c, sig := analyse(run, h, evs, &unknown)
		contended += c
		run.Case(fmt.Sprintf("%d|%x", h, sig), c > 0)
		sigs[sig] = true
	}
	runtime.GOMAXPROCS(runtime.NumCPU())
	fox.VerifSetPoint(nil)
	conc.MethodFlip(run)
	conc.OptionsStar(run)
	conc.ParamStorm(run)
	conc.TruncateStorm(run)
	conc.FirstUse(run)
	conc.SharedSeq(run)
	run.Count("operations_recorded", totalOps)
	run.Count("reads_overlapping_a_committed_write_same_key", contended)
	run.Count("distinct_history_signatures", int64(len(sigs)))
	if unknown > 0 {
		run.Inconclusive("porcupine timed out on %d partition(s)", unknown)
	}
}

func oneHistory(run *kit.Run, h int) ([]event, bool) {
	r := run.Rand(uint64(h))
	procs := []int{2, 4, 16, 16}[r.IntN(4)]
	runtime.GOMAXPROCS(procs)
	nW := []int{1, 2, 4, 8}[r.IntN(4)]
	nR := []int{2, 8, 24}[r.IntN(3)]
	perClient := 1500 / (nW + nR)
	if perClient > 120 {
		perClient = 120
	}
	delay := r.IntN(3) == 0
	f, err := fox.New()
	if err != nil {
		run.Inconclusive("fox.New: %v", err)
		return nil, false
	}
	var clock, verCtr, epoch atomic.Int64
	var slots sync.Map // goroutine id -> epoch of its last commit
	var hookCalls atomic.Int64
	fox.VerifSetPoint(func(name string) {
		n := hookCalls.Add(1)
		if name == "commit.beforeStore" {
			slots.Store(goid(), epoch.Add(1))
		}
		if delay {
			switch n % 5 {
			case 0:
				time.Sleep(time.Duration(50+n%150) * time.Microsecond)
			case 1, 2:
				runtime.Gosched()
			}
		}
	})
	run.Count(fmt.Sprintf("histories_gomaxprocs_%d", procs), 1)
	run.Count(fmt.Sprintf("histories_writers_%d", nW), 1)
	if delay {
		run.Count("histories_with_injected_delays", 1)
	}
	logs := make([][]event, nW+nR)
	var wg sync.WaitGroup
	var panicked atomic.Bool
	for c := 0; c < nW+nR; c++ {
		wg.Add(1)
		go func(c int) {
			defer wg.Done()
			defer func() {
				if p := recover(); p != nil {
					panicked.Store(true)
					run.Violate(fmt.Sprintf("panic|history=%d", h), fmt.Sprintf("client %d panicked: %v\n%s", c, p, kit.TrimStack(kit.AllStacks())), map[string]any{"history": h})
				}
			}()
			rc := run.Rand(uint64(1_000_000 + h*64 + c))
			gid := goid()
			rec := func(e event) { logs[c] = append(logs[c], e) }
			for i := 0; i < perClient; i++ {
				ki := rc.IntN(len(keys))
				if c < nW {
					write(f, rc, c, ki, gid, &clock, &verCtr, &slots, rec)
				} else {
					read(f, rc, c, ki, &clock, rec)
				}
			}
		}(c)
	}
	wg.Wait()
	if panicked.Load() {
		return nil, false
	}
	var all []event
	for _, l := range logs {
		all = append(all, l...)
	}
	// quiescence: the final state is recorded as reads that return after everything else
	for ki, k := range keys {
		call := clock.Add(1)
		v := verOf(f.Route("GET", k))
		all = append(all, event{client: nW + nR, in: in{Key: k, Op: "route"}, out: out{Ver: v}, call: call, ret: clock.Add(1)})
		_ = ki
	}
	return all, true
}

func write(f *fox.Router, rc interface{ IntN(int) int }, c, ki int, gid int64, clock, verCtr *atomic.Int64, slots *sync.Map, rec func(event)) {
	mk := func(op string, k string) (in, fox.HandlerFunc, fox.RouteOption) {
		v := verCtr.Add(1)
		return in{Key: k, Op: op, Ver: v}, handlerFor(v), fox.WithAnnotation(verKey{}, v)
	}
	commitEpoch := func(before int64) int64 {
		if e, ok := slots.Load(gid); ok && e.(int64) != before {
			return e.(int64)
		}
		return 0
	}
	last := int64(0)
	if e, ok := slots.Load(gid); ok {
		last = e.(int64)
	}
	switch x := rc.IntN(10); {
	case x < 7: // single operation
		var I in
		var O out
		call := clock.Add(1)
		switch rc.IntN(3) {
		case 0:
			var h fox.HandlerFunc
			var o fox.RouteOption
			I, h, o = mk("handle", keys[ki])
			_, err := f.Handle("GET", keys[ki], h, o)
			O.OK = err == nil
			if err != nil && !errors.Is(err, fox.ErrRouteExist) {
				panic(err)
			}
		case 1:
			var h fox.HandlerFunc
			var o fox.RouteOption
			I, h, o = mk("update", keys[ki])
			_, err := f.Update("GET", keys[ki], h, o)
			O.OK = err == nil
			if err != nil && !errors.Is(err, fox.ErrRouteNotFound) {
				panic(err)
			}
		default:
			I = in{Key: keys[ki], Op: "delete"}
			rte, err := f.Delete("GET", keys[ki])
			O.OK = err == nil
			O.Ver = verOf(rte)
			if err != nil && !errors.Is(err, fox.ErrRouteNotFound) {
				panic(err)
			}
		}
		ret := clock.Add(1)
		ev := event{client: c, in: I, out: O, call: call, ret: ret}
		if O.OK {
			ev.epoch = commitEpoch(last)
		}
		rec(ev)
	default: // multi-key transaction (committed or aborted): one recorded op per key over the txn's interval
		abort := x == 9
		n := 2 + rc.IntN(3)
		picked := map[int]bool{ki: true}
		for len(picked) < n {
			picked[rc.IntN(len(keys))] = true
		}
		var evs []event
		call := clock.Add(1)
		_ = f.Updates(func(txn *fox.Txn) error {
			for k := range picked {
				var I in
				var O out
				switch rc.IntN(3) {
				case 0:
					var h fox.HandlerFunc
					var o fox.RouteOption
					I, h, o = mk("handle", keys[k])
					_, err := txn.Handle("GET", keys[k], h, o)
					O.OK = err == nil
				case 1:
					var h fox.HandlerFunc
					var o fox.RouteOption
					I, h, o = mk("update", keys[k])
					_, err := txn.Update("GET", keys[k], h, o)
					O.OK = err == nil
				default:
					I = in{Key: keys[k], Op: "delete"}
					rte, err := txn.Delete("GET", keys[k])
					O.OK = err == nil
					O.Ver = verOf(rte)
				}
				evs = append(evs, event{client: c, in: I, out: O})
				if rc.IntN(4) == 0 {
					runtime.Gosched()
				}
			}
			// a third of the transactions look at what they are about to publish (as the documentation's examples do)
			switch rc.IntN(6) {
			case 0:
				for range txn.Iter().All() {
				}
			case 1:
				if sn := txn.Snapshot(); sn != nil {
					sn.Len()
					// the consumer is done with its read-only view and says so, one way or the other; the writer that
					// took it is still open, and other writers are waiting
					if rc.IntN(2) == 0 {
						sn.Abort()
					} else {
						sn.Commit()
					}
					runtime.Gosched()
				}
			}
			if abort {
				return errors.New("abort")
			}
			return nil
		})
		ret := clock.Add(1)
		if abort {
			// an aborted transaction is a no-op: nothing is recorded, so any read that observes one of its
			// versions is rejected by the model (that version was never written)
			return
		}
		e := commitEpoch(last)
		for _, ev := range evs {
			ev.call, ev.ret = call, ret
			if ev.out.OK {
				ev.epoch = e
			}
			rec(ev)
		}
	}
}

func read(f *fox.Router, rc interface{ IntN(int) int }, c, ki int, clock *atomic.Int64, rec func(event)) {
	k := keys[ki]
	p := probes[ki]
	req := func() *http.Request {
		return &http.Request{Method: "GET", Host: p.host, URL: &url.URL{Path: p.path}, Header: http.Header{}}
	}
	x := rc.IntN(8)
	if ki == 6 && (x == 1 || x == 3 || x == 4) {
		x = 0 // h.com/a falls back to /a when absent: only exact-pattern reads for this key
	}
	call := clock.Add(1)
	switch x {
	case 0:
		ok := f.Has("GET", k)
		rec(event{client: c, in: in{Key: k, Op: "has"}, out: out{OK: ok}, call: call, ret: clock.Add(1)})
	case 1:
		w := &verW{h: http.Header{}, ver: -2}
		f.ServeHTTP(w, req())
		if w.ver >= 0 && w.params != wantParams[ki] {
			msg := fmt.Sprintf("handler of %s serving %s saw params %q, expected %q", k, p.path, w.params, wantParams[ki])
			paramBad.CompareAndSwap(nil, &msg)
		}
		rec(event{client: c, in: in{Key: k, Op: "serve"}, out: out{Ver: w.ver}, call: call, ret: clock.Add(1)})
	case 2:
		v := verOf(f.Route("GET", k))
		rec(event{client: c, in: in{Key: k, Op: "route"}, out: out{Ver: v}, call: call, ret: clock.Add(1)})
	case 3:
		rte, cc, tsr := f.Lookup(nil, req())
		v := int64(-1)
		if rte != nil {
			if !tsr {
				v = verOf(rte)
				if got := paramsOf(cc); got != wantParams[ki] {
					msg := fmt.Sprintf("Lookup of %s for %s returned params %q, expected %q", k, p.path, got, wantParams[ki])
					paramBad.CompareAndSwap(nil, &msg)
				}
			}
			cc.Close()
		}
		rec(event{client: c, in: in{Key: k, Op: "lookup"}, out: out{Ver: v}, call: call, ret: clock.Add(1)})
	case 4:
		rte, tsr := f.Reverse("GET", p.host, p.path)
		v := int64(-1)
		if rte != nil && !tsr {
			v = verOf(rte)
		}
		rec(event{client: c, in: in{Key: k, Op: "reverse"}, out: out{Ver: v}, call: call, ret: clock.Add(1)})
	case 5, 6: // one snapshot, all keys
		seen := map[string]int64{}
		for _, rte := range f.Iter().All() {
			seen[rte.Pattern()] = verOf(rte)
		}
		ret := clock.Add(1)
		for _, kk := range keys {
			v, ok := seen[kk]
			if !ok {
				v = -1
			}
			rec(event{client: c, in: in{Key: kk, Op: "iter"}, out: out{Ver: v}, call: call, ret: ret})
		}
	default: // managed read-only transaction, two keys from one snapshot
		k2 := keys[rc.IntN(len(keys))]
		var v1, v2 int64
		_ = f.View(func(txn *fox.Txn) error {
			v1 = verOf(txn.Route("GET", k))
			runtime.Gosched()
			v2 = verOf(txn.Route("GET", k2))
			return nil
		})
		ret := clock.Add(1)
		rec(event{client: c, in: in{Key: k, Op: "view"}, out: out{Ver: v1}, call: call, ret: ret})
		if k2 != k {
			rec(event{client: c, in: in{Key: k2, Op: "view"}, out: out{Ver: v2}, call: call, ret: ret})
		}
	}
}

func isWrite(op string) bool { return op == "handle" || op == "update" || op == "delete" }

func analyse(run *kit.Run, h int, evs []event, unknown *int64) (contended int64, sig uint64) {
	sort.SliceStable(evs, func(i, j int) bool { return evs[i].call < evs[j].call })
	hs := fnv.New64a()
	ops := make([]porcupine.Operation, 0, len(evs))
	for _, e := range evs {
		fmt.Fprintf(hs, "%d %s %s %t %d|", e.client, e.in.Op, e.in.Key, e.out.OK, e.out.Ver)
		ops = append(ops, porcupine.Operation{ClientId: e.client, Input: e.in, Call: e.call, Output: e.out, Return: e.ret})
		run.Count("op_"+e.in.Op, 1)
	}
	sig = hs.Sum64()
	// contention measure
	byKey := map[string][]event{}
	for _, e := range evs {
		byKey[e.in.Key] = append(byKey[e.in.Key], e)
	}
	for _, ke := range byKey {
		for _, rd := range ke {
			if isWrite(rd.in.Op) {
				continue
			}
			for _, wr := range ke {
				if isWrite(wr.in.Op) && wr.out.OK && wr.call < rd.ret && rd.call < wr.ret {
					contended++
					break
				}
			}
		}
	}
	// (1) linearizability per key
	for _, part := range model.Partition(ops) {
		res, _ := porcupine.CheckOperationsVerbose(model, part, 60*time.Second)
		if res == porcupine.Unknown {
			// the wall clock is only a watchdog: on a loaded machine a partition that normally takes milliseconds may
			// run out of it; it gets a second, much longer chance before the run is called inconclusive
			run.Count("porcupine_partitions_retried", 1)
			res, _ = porcupine.CheckOperationsVerbose(model, part, 15*time.Minute)
		}
		switch res {
		case porcupine.Unknown:
			*unknown++
		case porcupine.Illegal:
			k := part[0].Input.(in).Key
			var lines []string
			for i, o := range part {
				if i >= 60 {
					lines = append(lines, "…")
					break
				}
				lines = append(lines, fmt.Sprintf("c%d [%d,%d] %+v -> %+v", o.ClientId, o.Call, o.Return, o.Input, o.Output))
			}
			run.Violate(fmt.Sprintf("not-linearizable|history=%d|key=%s", h, k), fmt.Sprintf("history %d: operations on key %s are not linearizable (porcupine: Illegal); %d operations, first ones in call order:\n%s", h, k, len(part), joinLines(lines)),
				map[string]any{"history": h, "key": k, "operations": lines})
		}
	}
	// (2) epoch monotonicity per reader across keys: after observing a version committed at epoch e, no later read of
	// the same client may return a state of its key that was already overwritten at or before e
	type wr struct {
		epoch   int64
		ver     int64
		present bool
	}
	writes := map[string][]wr{}
	verEpoch := map[int64]int64{}
	for _, e := range evs {
		if isWrite(e.in.Op) && e.out.OK && e.epoch > 0 {
			writes[e.in.Key] = append(writes[e.in.Key], wr{e.epoch, e.in.Ver, e.in.Op != "delete"})
			if e.in.Op != "delete" {
				verEpoch[e.in.Ver] = e.epoch
			}
		}
	}
	for k := range writes {
		w := writes[k]
		sort.Slice(w, func(i, j int) bool { return w[i].epoch < w[j].epoch })
	}
	floor := map[int]int64{} // client -> highest epoch it has provably observed
	byClient := map[int][]event{}
	for _, e := range evs {
		byClient[e.client] = append(byClient[e.client], e)
	}
	for cl, ce := range byClient {
		for _, e := range ce {
			if isWrite(e.in.Op) || e.in.Op == "has" {
				continue
			}
			// the epoch of the state this read reflects, for its key
			var seenEpoch int64
			if e.out.Ver > 0 {
				seenEpoch = verEpoch[e.out.Ver]
			}
			fl := floor[cl]
			if fl > 0 {
				// which write to this key is the latest with epoch <= floor ?
				var latest *wr
				for i := range writes[e.in.Key] {
					if writes[e.in.Key][i].epoch <= fl {
						latest = &writes[e.in.Key][i]
					}
				}
				if latest != nil {
					stale := false
					if e.out.Ver > 0 && seenEpoch > 0 && seenEpoch < latest.epoch {
						stale = true
					}
					if e.out.Ver == -1 && latest.present {
						// absent is only fine if some delete with epoch > latest.epoch exists (a newer state)
						newerDelete := false
						for _, w2 := range writes[e.in.Key] {
							if w2.epoch > latest.epoch && !w2.present {
								newerDelete = true
							}
						}
						stale = !newerDelete
					}
					if stale {
						run.Violate(fmt.Sprintf("stale-read|history=%d|client=%d", h, cl), fmt.Sprintf("history %d: client %d had already observed commit epoch %d, then %s of %s returned version %d (epoch %d) although that key was rewritten at epoch %d",
							h, cl, fl, e.in.Op, e.in.Key, e.out.Ver, seenEpoch, latest.epoch), map[string]any{"history": h, "client": cl})
					}
				}
			}
			run.Count("epoch_monotonicity_checks", 1)
			if seenEpoch > floor[cl] {
				floor[cl] = seenEpoch
			}
		}
	}
	// (3) quiescence: final state = last committed write per key in epoch order
	for _, k := range keys {
		w := writes[k]
		var final event
		for _, e := range evs {
			if e.in.Key == k && e.in.Op == "route" && e.client == maxClient(evs) {
				final = e
			}
		}
		want := int64(-1)
		if len(w) > 0 && w[len(w)-1].present {
			want = w[len(w)-1].ver
		}
		// writes whose epoch could not be attributed (0) are left to porcupine
		attributed := true
		for _, e := range evs {
			if e.in.Key == k && isWrite(e.in.Op) && e.out.OK && e.epoch == 0 {
				attributed = false
			}
		}
		if attributed {
			run.Count("quiescence_checks", 1)
			if final.out.Ver != want {
				run.Violate(fmt.Sprintf("lost-or-phantom-write|history=%d|key=%s", h, k), fmt.Sprintf("history %d: at quiescence key %s holds version %d, the last committed write (epoch order) left %d", h, k, final.out.Ver, want), map[string]any{"history": h, "key": k})
			}
		}
	}
	if run.WantSample() && h < 3 {
		var first []string
		for i, e := range evs {
			if i >= 12 {
				break
			}
			first = append(first, fmt.Sprintf("c%d [%d,%d] %s %s v%d -> ok=%t v%d", e.client, e.call, e.ret, e.in.Op, e.in.Key, e.in.Ver, e.out.OK, e.out.Ver))
		}
		run.Sample(map[string]any{"history": h, "events": len(evs), "first_events": first})
	}
	return contended, sig
}

func maxClient(evs []event) int {
	m := 0
	for _, e := range evs {
		if e.client > m {
			m = e.client
		}
	}
	return m
}

func joinLines(l []string) string {
	var b bytes.Buffer
	for _, s := range l {
		b.WriteString(s)
		b.WriteByte('\n')
	}
	return b.String()
}
